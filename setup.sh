#!/bin/sh
# Offline set-up: nothing to build (netqasm is pure Python and is imported from /repo's
# working tree by every check).  Verify the interpreter and third-party imports the
# checks need, then run the short determinism self-test.
set -e
cd "$(dirname "$0")"
/venv/bin/python - <<'PY'
import sys
sys.path.insert(0, "/repo")
import numpy, scipy, qlink_interface, netqasm  # noqa
print("python", sys.version.split()[0], "numpy", numpy.__version__, "netqasm from", netqasm.__file__)
PY
mkdir -p evidence replays
/venv/bin/python selftest/determinism.py --short
