#!/venv/bin/python
"""Prints the prompt given to a fresh sub-agent for seeding a property-breaking change.
Only the property's own text goes in; nothing from /verif's machinery."""
import json, sys
pid, wt = sys.argv[1], sys.argv[2]
n = sys.argv[3] if len(sys.argv) > 3 else "2"
for l in open('/verif/properties.jsonl'):
    p = json.loads(l)
    if p['id'] == pid:
        break

# one-line descriptions of changes earlier reviewers already proposed (round 3 asks for different ones);
# these describe earlier *changes*, nothing about /verif's machinery
TAKEN = {
 "C04": ["array re-declaration keeps old contents", "a faulting double qalloc leaks a physical qubit / marks it used before the check",
         "unused physical qubit = size of the used set", "empty array returned to the host as [None]", "bnz taken only for positive values",
         "qfree removes the virtual address from the in-use set", "modulus check only on addm (subm unchecked)",
         "a fault inside a generator-style instruction is reported one line late", "register banks have 15 registers instead of 16",
         "a taken jump to line 0 falls through", "IndexError faults lose their line", "ret_reg publishes under the subroutine id",
         "resetting one program counter clears all of them", "stop computes the remaining in-use set before the clears",
         "the running line kept on the executor instead of per subroutine", "qfree releases its addresses only after the (suspending) clear"],
 "C05": ["register-indexed array element compiled as index 0", "ret_arr copies / snapshots the array", "loop_until counter released before the exit condition is built",
         "addm implemented as one conditional subtraction",
         "reset() keeps the registers-to-return list", "flush with only array declarations pending is skipped", "loop_until gives up one try early",
         "an array-stored measurement frees all M registers", "bge exit test for non-unit loop steps (breaks count-down loops)",
         "loop_body drops its step argument", "an if with an empty body drops the commands pending before it",
         "both operands of a binary if loaded into one register", "Future.add(Future) leaks a register per call",
         "array addresses derived from the to-return list", "adjacent branch labels not resolved",
         "index of a Future-indexed element accessed with the store instruction", "bge does not branch on equality"],
 "C06": ["template value 0 left unsubstituted", "builder reset moved between compile() and commit", "instantiate() stops substituting after each name was seen once",
         "compile() clears return lists by hand (M registers never released)", "templated rotation emitted before its qubit register is set", "early return for template-free subroutines skips the reset",
         "NV transpiler skipped for templated subroutines", "instantiate substitutes in place (shared list across copies)",
         "template positions recorded before the NV transpiler replaces the instruction list", "template values wrapped modulo 255",
         "compiled subroutine has no app id until instantiate()", "a template named like a branch label resolved as that label", "instantiate() empties the instruction list first",
         "instantiate() pops the used names out of the caller's dict", "templated numerator with denominator 0 refused",
         "commit_subroutine flushes pending operations first", "instantiate looks template names up by substring"],
 "C08": ["branch to the end label retargeted wrongly", "scratch electron register never released", "scratch register chosen from the wrong bookkeeping set",
         "debug=True collapses the SWAP expansion", "cphase with the electron as second operand not swapped", "hardware angle rescaling 2*d instead of 2**d",
         "transpiler bookkeeping shared between transpiler objects", "old-to-new index map recorded after emitting (label on a gate lands at the end of its expansion)",
         "unary-branch line setter writes a stray attribute", "set Qx v elided when the tracked value already is v",
         "cnot carbon->electron expansion aliased", "carbon-carbon cphase executes as cnot", "hardware setting: rot_y keeps the old denominator",
         "jmp no longer retargeted", "register-value lookup memoised",
         "sign slip in the carbon-to-electron mov decomposition", "scratch-register set emitted only at the textually first carbon-carbon gate"],
 "C09": ["NV relocation does not update the handle", "_has_virtual_address truthiness (physical qubit 0)", "non-sequential keep takes consecutive IDs from the first hole",
         "measure() deactivates the handle before building commands",
         "pop(0) of the pending response list", "min-fidelity retry clean-up frees IDs 0..n-1", "NV just-initialised shortcut fires for another qubit",
         "pairs_left decremented in _extract_epr_info", "register measurement (store_array=False) omits the qfree",
         "ID search starts at the number of live handles", "NV receive: correction on ID 0 after the pair was moved to memory",
         "entanglement info stored before the keep handler decides", "wait_all resumes when any entry is defined",
         "finished subroutines hand their id back", "create request booked before put() (refusal leaves it behind)",
         "busy check of a keep response keyed by subroutine id", "stop_application releases the virtual instead of the physical address"],
 "C10": ["NV move-to-memory corrects the wrong qubit", "recv_rsp_with_info drops expect_phi_plus", "correction block applied once after the loop",
         "measure-directly post-processing reads pair 0's Bell state for every pair",
         "PSI_MINUS flip list wrong for MX/MY", "no wait/correction for a sequential single pair", "qlink-1.0 measure response loses its Bell state",
         "double correction with a non-sequential post routine", "the creator corrects too on single-comm-qubit hardware",
         "non-sequential post routine never corrected", "MY / MZ rotations looked up as each other",
         "array addresses restart after every flush", "min-fidelity clean-up keyed on 'no post routine' instead of 'not sequential'",
         "per-pair wait computes pair+1 as 1", "entanglement info stored before the handler decides",
         "backlog pops the newest response instead of the handled one", "request serialisation fills a module-level default list in place"],
 "C11": ["remote rotations dropped when the local ones are zero", "pop(0) of the pending response list", "qlink-1.0 conversion copies a local angle into a remote field",
         "recv_measure passes the remote socket id", "deferred keep response still consumes a pair slot",
         "create-request defaults are one shared dict", "request booked before put() with no rollback when put() raises",
         "create request booked under the socket id instead of the purpose id",
         "'no request yet' tested by key membership", "EPRSocket keeps the remote node id of its first connection",
         "receive branch retires with pop() instead of pop(0)", "recv_measure waits for pair 0 only",
         "stale handled flag in a single sweep over the backlog", "creator-side response falls back to the receiver role when no create is booked"],
 "C12": ["pop(0) of the pending response list", "pairs_left decremented before the handler", "directionality flag lost for measure responses",
         "_has_virtual_address truthiness", "wait_all resumes when any entry is defined", "pending-response loop keeps iterating after a handled response",
         "receive requests filed under the socket id instead of the purpose id", "retiring a request drops the socket's whole request list",
         "busy check looks at the unit module of app id = subroutine id", "pair index = sequence number mod pairs",
         "create request filed before the stack accepts it", "entanglement info stored before the handler runs", "'no request yet' tested by key membership",
         "wait_single waits once instead of until defined", "newest instead of oldest request matched", "subroutine ids reused",
         "backlog replayed newest-first", "purpose id cached per socket id only",
         "array declaration is a no-op when an array of that length exists", "backlog list shared by all executors (class attribute)"],
 "C13": ["stop removes the virtual instead of the physical address", "subroutine ids reused while in flight", "qfree removes the virtual address from the used set",
         "keep response marks the physical qubit before the busy check",
         "Arrays() shares a mutable default dict", "physical qubit marked used before the checks of qalloc",
         "load writes the register of the app whose id equals the subroutine id",
         "unused physical qubit = size of the used set",
         "qfree releases the physical qubit before and unmaps after the clear", "stop computes the remaining in-use set before the clears and assigns it after",
         "_get_unused_physical_qubit no longer marks what it returns", "controller forgets an application whose duplicate registration was refused",
         "stopping application 0 forgets every application's shared memory",
         "backlog pop(0) instead of pop(i)", "create request booked before put() (refused request stays booked)"],
 "C14": ["empty-body loop keeps its register", "condition temporary released too early", "a finished EPR receive keeps one register", "loop_until counter released too early",
         "M registers only reclaimed if listed for return", "add(<register>) releases the register of the caller", "index temporary of a future-indexed element never released",
         "array-initialisation loop register never released", "RegFuture.add leaks its temporary",
         "allocator search hint only lowered by the register directly below it", "array measurement releases the qubit register instead of the outcome register",
         "every MemoryManager shares one default set of active registers", "only the last temporary of a binary condition released", "EPR context pair counter not reserved while the body is built",
         "an aborted conn.loop keeps its register", "unary condition releases a register of an enclosing operation",
         "M-register pool rebuilt with 15 registers at a flush", "NV keep without corrections leaks two registers"],
 "C18": ["disconnect pops the peer's receive callback", "connect clears the inbox after the socket is visible", "recv pops from a snapshot and writes it back",
         "disconnect removes the wrong key from the remote set",
         "connect records itself as remote only if the peer is not open", "recv_structured ignores block=False", "broadcast recv pops every pending socket and returns the last",
         "remote marker published before the open entry", "broadcast sweep stops at the first empty socket",
         "_wait_for_remote looks only at the remote-marker set", "recv checks the deadline between taking the message and returning it",
         "StorageThreadSocket creates its storage after connecting", "a timed-out connect also drops the inbox", "deadline checked before looking for the peer",
         "send_structured checks the connection after handing the message over", "non-blocking recv deletes the inbox entry in a second lock section", "broadcast recv skips sockets whose remote has left",
         "a message handed to the callback is queued as well", "logging wrapper returns the log-trimmed text",
         "callback lookup split into check and use", "queued path replaces the inbox list instead of appending"],
 "C20": ["parity_meas flips back by the first qubit's basis", "negative angles folded with fmod", "parity_meas keeps its ancilla",
         "toffoli: last T-dagger and CNOT swapped", "trivial Pauli string returns before the sign flip", "single-qubit parity outcome kept in a register",
         "array addresses restart after every flush (memmgr)", "qfree releases the wrong physical-qubit number (executor)",
         "subroutine ids reused under interleaving of two applications (executor)", "builder reset only after a blocking flush (connection)",
         "ancilla CNOTs use positions instead of stored indices", "memmgr free-ID search starts at the number of live handles", "class-level shared array dict",
         "basis rotations emitted before the ancilla allocation", "angle decomposition stops at tol*pi",
         "NV carbon-to-electron CNOT mapped the wrong way round", "relocated qubit's handle keeps its old id in the rewrite branch"],
}

timing = ""
if len(sys.argv) > 4 and sys.argv[4] == "timing":
    timing = ("FOR THIS ROUND prefer changes whose manifestation depends on TIMING rather than on a particular input value: a particular "
              "interleaving of concurrent parties (threads, applications on one controller, host versus controller, controller versus link "
              "layer), the arrival order or delay of messages and link-layer responses, a fault at a particular point (a refused request, "
              "a time-out, an error response, an exception half-way through an operation), a stop / restart / re-connection at a "
              "particular moment. The demonstration should then construct that interleaving or fault deterministically.\n\n")
if len(sys.argv) > 4 and sys.argv[4] == "failure":
    timing = ("FOR THIS ROUND prefer changes that only matter on a FAILURE or RECOVERY path: something is refused, raises, times out, is "
              "stopped, closed or re-created half-way (an exception raised inside a user callback or context body that the application "
              "catches, a request the network stack or the controller refuses, a subroutine that faults while other work is in flight, "
              "an application that is stopped and registered again, a connection or socket that is closed and opened again) -- and what "
              "must still hold AFTERWARDS for the work that follows (state left behind, resources not given back, the wrong party "
              "blamed or affected). The demonstration should inject that failure deterministically and then show the later, healthy "
              "work going wrong.\n\n")
taken = "".join(f"\n  - {t}" for t in TAKEN.get(pid, []))
print(f"""You are helping test a verification effort for the open-source Python project QuTech-Delft/netqasm (a quantum-network instruction set: SDK that builds IR, assembler/encoder, NV transpiler, base executor/interpreter).

You have your own scratch git worktree of the repository at {wt} . Work ONLY inside {wt} (never touch /repo or /verif, never read /verif). The package is importable from the worktree when your working directory is the worktree root: run things as `cd {wt} && /venv/bin/python your_script.py` or `cd {wt} && /venv/bin/python -m pytest -q -p no:cacheprovider --timeout=900 --continue-on-collection-errors tests` (the 21 collection errors under tests/test_external are expected: they need an external simulator; 171 tests pass on the unchanged tree). There is no network access. Do NOT use `git stash` (the stash is shared with other worktrees); to switch between changed and unchanged trees use `git apply <diff>`, `git apply -R <diff>` and `git -C <worktree> checkout -- netqasm`.

Here is a semantic property of netqasm that is supposed to hold:

TITLE: {p['title']}
STATEMENT: {p['statement']}
QUANTIFIED OVER: {p['quantifier']['text']}
CODE IT IS ANCHORED IN: {', '.join(p['anchors']['files'])}

YOUR TASK: produce {n} DIFFERENT, independent source changes to the netqasm package (under {wt}/netqasm/) each of which BREAKS this property, while the code still imports and the existing test suite still passes (171 passed, same as before). Each change should be the kind of realistic slip a developer could make (an off-by-one, a wrong index or key, a missing release/cleanup, a reordered pair of statements, a condition that is wrong only for some inputs, two sites that each look fine alone) and must need SOMETHING SPECIFIC to manifest: a particular interleaving or arrival order, a multi-step sequence of operations, an unusual input or configuration, a fault at a particular point -- NOT something that ordinary single-shot use would expose at once, and not something that breaks on every input.

{timing}Earlier reviewers already proposed the following changes for this property; propose changes that are DIFFERENT in kind and, where the anchored code allows, in a different function or file from these (look at parts of the statement and of the anchored files these do not touch):{taken}

For EACH change i (1..{n}) deliver, in the worktree root:
  - {wt}/change_i.diff : a unified diff (`git -C {wt} diff > change_i.diff` taken with ONLY that change applied; then `git -C {wt} checkout -- netqasm` before starting the next change so that the changes are independent),
  - {wt}/demo_i.py : a small self-contained demonstration program (plain python script using only the repository and the standard library/numpy; it may subclass the repository's base classes such as Executor, QNodeController, BaseNetQASMConnection, BaseNetworkStack to run things) that exits with status 0 on the UNCHANGED tree and exits non-zero (assertion failure) when change_i.diff is applied,
  - a few lines in {wt}/NOTES.md: what the change is, which part of the property it breaks, and exactly what it needs in order to manifest.

Finally, add a section "Observations on the unchanged tree" to NOTES.md: anything you noticed while reading or experimenting where the UNCHANGED code already seems to violate the property (which call, which input, what happens) -- a few lines each, or "none".

Before finishing, VERIFY for each change: (a) with the change applied, the test suite still reports 171 passed; (b) with the change applied demo_i.py fails; (c) with the change reverted (`git -C {wt} checkout -- netqasm`) demo_i.py passes. Leave the worktree with the netqasm/ directory reverted to unchanged (only the change_*.diff, demo_*.py and NOTES.md files added). Report briefly what you produced and the outcome of (a),(b),(c) for each change.""")
