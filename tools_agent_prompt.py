#!/venv/bin/python
"""Prints the prompt given to a fresh sub-agent for seeding a property-breaking change.
Only the property's own text goes in; nothing from /verif's machinery."""
import json, sys
pid, wt = sys.argv[1], sys.argv[2]
n = sys.argv[3] if len(sys.argv) > 3 else "2"
for l in open('/verif/properties.jsonl'):
    p = json.loads(l)
    if p['id'] == pid:
        break
print(f"""You are helping test a verification effort for the open-source Python project QuTech-Delft/netqasm (a quantum-network instruction set: SDK that builds IR, assembler/encoder, NV transpiler, base executor/interpreter).

You have your own scratch git worktree of the repository at {wt} . Work ONLY inside {wt} (never touch /repo or /verif, never read /verif). The package is importable from the worktree when your working directory is the worktree root: run things as `cd {wt} && /venv/bin/python your_script.py` or `cd {wt} && /venv/bin/python -m pytest -q -p no:cacheprovider --timeout=900 --continue-on-collection-errors tests` (the 21 collection errors under tests/test_external are expected: they need an external simulator; 171 tests pass on the unchanged tree). There is no network access. Do NOT use `git stash` (the stash is shared with other worktrees); to switch between changed and unchanged trees use `git apply <diff>`, `git apply -R <diff>` and `git -C <worktree> checkout -- netqasm`.

Here is a semantic property of netqasm that is supposed to hold:

TITLE: {p['title']}
STATEMENT: {p['statement']}
QUANTIFIED OVER: {p['quantifier']['text']}
CODE IT IS ANCHORED IN: {', '.join(p['anchors']['files'])}

YOUR TASK: produce {n} DIFFERENT, independent source changes to the netqasm package (under {wt}/netqasm/) each of which BREAKS this property, while the code still imports and the existing test suite still passes (171 passed, same as before). Each change should be the kind of realistic slip a developer could make (an off-by-one, a wrong index or key, a missing release/cleanup, a reordered pair of statements, a condition that is wrong only for some inputs, two sites that each look fine alone) and must need SOMETHING SPECIFIC to manifest: a particular interleaving or arrival order, a multi-step sequence of operations, an unusual input or configuration, a fault at a particular point -- NOT something that ordinary single-shot use would expose at once, and not something that breaks on every input.

For EACH change i (1..{n}) deliver, in the worktree root:
  - {wt}/change_i.diff : a unified diff (`git -C {wt} diff > change_i.diff` taken with ONLY that change applied; then `git -C {wt} checkout -- netqasm` before starting the next change so that the changes are independent),
  - {wt}/demo_i.py : a small self-contained demonstration program (plain python script using only the repository and the standard library/numpy; it may subclass the repository's base classes such as Executor, QNodeController, BaseNetQASMConnection, BaseNetworkStack to run things) that exits with status 0 on the UNCHANGED tree and exits non-zero (assertion failure) when change_i.diff is applied,
  - a few lines in {wt}/NOTES.md: what the change is, which part of the property it breaks, and exactly what it needs in order to manifest.

Before finishing, VERIFY for each change: (a) with the change applied, the test suite still reports 171 passed; (b) with the change applied demo_i.py fails; (c) with the change reverted (`git -C {wt} checkout -- netqasm`) demo_i.py passes. Leave the worktree with the netqasm/ directory reverted to unchanged (only the change_*.diff, demo_*.py and NOTES.md files added). Report briefly what you produced and the outcome of (a),(b),(c) for each change.""")
