#!/venv/bin/python
"""Determinism self-test: the trace digest of run i must not depend on the process, the
worker count, the hash seed, or on what ran before it in the same process.

For every claimed property: N seeds x {fresh interpreter A (PYTHONHASHSEED=0), fresh
interpreter B with another hash seed and reversed run order via a different batch
split}.  Digests (and the effective choice-record length) must agree line by line.
"""
import argparse
import os
import subprocess
import sys

HERE = os.path.dirname(os.path.abspath(__file__))
VERIF = os.path.dirname(HERE)
sys.path.insert(0, VERIF)


def digests(prop, n, hashseed, extra_env=None, start=0):
    env = dict(os.environ)
    env["PYTHONHASHSEED"] = str(hashseed)
    env["NETQASM_VERIF_SIM"] = "1"
    env["VERIF_NO_REEXEC_HASHSEED"] = "1"
    if extra_env:
        env.update(extra_env)
    cp = subprocess.run([os.path.join(VERIF, "check"), prop, "--digest", "--runs", str(n), "--start", str(start)],
                        capture_output=True, text=True, env=env, timeout=3600)
    if cp.returncode != 0:
        raise SystemExit(f"determinism: {prop} digest run failed rc={cp.returncode}\n{cp.stdout[-2000:]}\n{cp.stderr[-2000:]}")
    return cp.stdout.splitlines()


def main():
    ap = argparse.ArgumentParser()
    ap.add_argument("--short", action="store_true")
    ap.add_argument("--n", type=int, default=0)
    ap.add_argument("props", nargs="*")
    a = ap.parse_args()
    from sim.runner import PROPS
    import importlib.util
    props = [p.upper() for p in a.props] or sorted(PROPS)
    n = a.n or (40 if a.short else 500)
    bad = 0
    for p in props:
        modpath = os.path.join(VERIF, *PROPS[p].split(".")) + ".py"
        if not os.path.exists(modpath):
            continue
        d1 = digests(p, n, 0)
        d2 = digests(p, n, 12345)
        d3 = digests(p, n, 0)
        # a run must not depend on what ran before it in the same process: start half-way
        d4 = digests(p, n, 0, start=n // 2)
        if d1 == d2 == d3 and d4 == d1[n // 2:]:
            print(f"determinism {p}: {n} runs x 3 interpreters (hash seeds 0, 12345, 0) + a process started at run "
                  f"{n // 2}: identical digests")
        elif d1 == d2 == d3:
            bad += 1
            for x, y in zip(d1[n // 2:], d4):
                if x != y:
                    print(f"determinism {p}: run depends on the runs before it\n  full {x}\n  tail {y}")
                    break
        else:
            bad += 1
            for x, y, z in zip(d1, d2, d3):
                if not (x == y == z):
                    print(f"determinism {p}: DIVERGED\n  A {x}\n  B {y}\n  C {z}")
                    break
    return 1 if bad else 0


if __name__ == "__main__":
    sys.exit(main())
