#!/bin/sh
# run every registered quick check once; non-zero exit if any check exits non-zero
cd "$(dirname "$0")/.."
rc=0
for p in $(/venv/bin/python -c "import json;print(' '.join(c['property_id'] for c in json.load(open('MANIFEST.json'))['checks']))"); do
  out=$(./check $p --tier quick 2>&1); r=$?
  echo "$p rc=$r $(echo "$out" | grep -v '^KNOWN' | tail -1)"
  [ $r -ne 0 ] && rc=1 && echo "$out" | tail -5
done
python3-vt - <<'PY'
import json, jsonschema, glob
sch=json.load(open('/root/.vp/EVIDENCE.schema.json'))
for f in sorted(glob.glob('/verif/evidence/*.json')):
    jsonschema.validate(json.load(open(f)), sch)
jsonschema.validate(json.load(open('/verif/MANIFEST.json')), json.load(open('/root/.vp/MANIFEST.schema.json')))
print("schemas ok")
PY
exit $rc
