#!/venv/bin/python
"""Sensitivity self-test: apply one small realistic slip at a time to a scratch copy of
the repository's package, run the quick check against the copy (NETQASM_SRC), expect
exit 1 with a VIOLATION line, delete the copy.  Not part of the registered checks.

usage: selftest/run_mutants.py [PROP ...] [--runs N] [--only name]
Mutants live in selftest/mutants.json: {name, property, file, old, new, note}.
Seeded sub-agent changes under /verif/seeded/<id>/patch.diff are run with --seeded.
"""
from __future__ import annotations

import argparse
import json
import os
import shutil
import subprocess
import sys
import tempfile
import time

HERE = os.path.dirname(os.path.abspath(__file__))
VERIF = os.path.dirname(HERE)
REPO = "/repo"


def scratch_copy() -> str:
    d = tempfile.mkdtemp(prefix="nq-mut-", dir="/tmp")
    shutil.copytree(os.path.join(REPO, "netqasm"), os.path.join(d, "netqasm"),
                    ignore=shutil.ignore_patterns("__pycache__"))
    return d


def run_check(prop: str, src: str, runs: int, tier: str = "quick") -> tuple:
    env = dict(os.environ)
    env["NETQASM_SRC"] = src
    env["PYTHONDONTWRITEBYTECODE"] = "1"
    cmd = [os.path.join(VERIF, "check"), prop, "--no-evidence", "--tier", tier]
    if runs:
        cmd += ["--runs", str(runs)]
    t = time.time()
    cp = subprocess.run(cmd, capture_output=True, text=True, env=env, timeout=3600)
    return cp.returncode, cp.stdout + cp.stderr, time.time() - t


def main() -> int:
    ap = argparse.ArgumentParser()
    ap.add_argument("props", nargs="*")
    ap.add_argument("--runs", type=int, default=0)
    ap.add_argument("--only")
    ap.add_argument("--seeded", action="store_true", help="also run /verif/seeded/*/patch.diff")
    ap.add_argument("--keep-replays", action="store_true")
    ap.add_argument("--progress", action="store_true", help="print each row as soon as it is known")
    a = ap.parse_args()
    with open(os.path.join(HERE, "mutants.json")) as f:
        mutants = json.load(f)
    if a.seeded:
        sd = os.path.join(VERIF, "seeded")
        for name in sorted(os.listdir(sd)) if os.path.isdir(sd) else []:
            meta = os.path.join(sd, name, "meta.json")
            if os.path.exists(meta):
                m = json.load(open(meta))
                if m.get("superseded"):
                    print(f"SKIPPED        {m['property']} seeded/{name:38s} superseded: {m['superseded'][:110]}", flush=True)
                    continue
                mutants.append({"name": f"seeded/{name}", "property": m.get("check_with", m["property"]),
                                "patch": os.path.join(sd, name, "patch.diff"), "note": m.get("needs", ""),
                                "not_covered": m.get("not_covered"),
                                "filed_under": m["property"] if m.get("check_with") else None})
    props = [p.upper() for p in a.props]
    rows = []
    bad = 0
    for m in mutants:
        if props and m["property"] not in props:
            continue
        if a.only and a.only not in m["name"]:
            continue
        d = scratch_copy()
        try:
            if "patch" in m:
                cp = subprocess.run(["patch", "-p1", "-d", d, "-i", m["patch"]], capture_output=True, text=True)
                if cp.returncode != 0:
                    rows.append((m["name"], m["property"], "PATCH-FAILED", 0.0, cp.stdout[-200:]))
                    bad += 1
                    if a.progress:
                        print(f"{'PATCH-FAILED':14s} {m['property']} {m['name']}  {cp.stdout[-200:]!r}", flush=True)
                    continue
            else:
                path = os.path.join(d, m["file"])
                src = open(path).read()
                if src.count(m["old"]) != m.get("count", 1):
                    rows.append((m["name"], m["property"], f"ANCHOR-COUNT={src.count(m['old'])}", 0.0, ""))
                    bad += 1
                    if a.progress:
                        print(f"{'ANCHOR-COUNT':14s} {m['property']} {m['name']}  count={src.count(m['old'])}", flush=True)
                    continue
                open(path, "w").write(src.replace(m["old"], m["new"]))
            before = set(os.listdir(os.path.join(VERIF, "replays"))) if os.path.isdir(os.path.join(VERIF, "replays")) else set()
            rc, out, dt = run_check(m["property"], d, a.runs or m.get("runs", 0))
            vio = [ln for ln in out.splitlines() if ln.startswith("VIOLATION")]
            sig = [ln for ln in out.splitlines() if ln.startswith("violation:")]
            status = "CAUGHT" if rc == 1 and vio else ("HARNESS-ERROR" if rc == 2 else "MISSED")
            if status == "MISSED" and m.get("not_covered"):
                status = "NOT-COVERED"      # documented in the seed's meta.json and in DESIGN 13.5
            elif status != "CAUGHT":
                bad += 1
            if m.get("filed_under"):
                sig = [f"(filed under {m['filed_under']}) " + (sig[0] if sig else "")]
            rows.append((m["name"], m["property"], status, dt, (sig[0][:150] if sig else out[-300:].replace("\n", " | "))))
            if a.progress:
                r = rows[-1]
                print(f"{r[2]:14s} {r[1]} {r[0]:45s} {r[3]:6.1f}s  {r[4]}", flush=True)
            if not a.keep_replays:
                after = set(os.listdir(os.path.join(VERIF, "replays")))
                for fn in after - before:
                    os.remove(os.path.join(VERIF, "replays", fn))
        finally:
            shutil.rmtree(d, ignore_errors=True)
    for r in rows:
        if not a.progress:
            print(f"{r[2]:14s} {r[1]} {r[0]:45s} {r[3]:6.1f}s  {r[4]}")
    print(f"{len(rows) - bad}/{len(rows)} caught")
    return 0 if bad == 0 else 1


if __name__ == "__main__":
    sys.exit(main())
