#!/venv/bin/python
import json, sys, glob
for path in sys.argv[1:]:
    r=json.load(open(path))
    d=r['violation']['detail'] or {}
    print("=====", path); print(r['violation']['signature'])
    for k,v in d.items():
        if k in ('program','subroutine','programs','trace'): continue
        print(' ',k,':',str(v)[:600])
    for s in d.get('program',[]): print('   ', s)
    if 'subroutine' in d: print(d['subroutine'])
    if 'trace' in d:
        for e in d['trace'][-30:]: print('   ', e)
