#!/venv/bin/python
"""Verify a sub-agent's seeded change in its scratch worktree and file it under /verif/seeded/<name>/.
usage: tools_verify_seed.py <worktree> <i> <property> <name>
Checks: (a) suite still 171 passed with the change, (b) demo fails with it, (c) demo passes without it."""
import json, os, re, shutil, subprocess, sys
wt, i, prop, name = sys.argv[1:5]
diff = os.path.join(wt, f"change_{i}.diff"); demo = os.path.join(wt, f"demo_{i}.py")
def sh(cmd, **kw):
    return subprocess.run(cmd, cwd=wt, capture_output=True, text=True, timeout=1800, **kw)
def clean():
    sh(["git", "checkout", "--", "netqasm"])
clean()
r = sh(["git", "apply", "--check", diff]); assert r.returncode == 0, r.stderr
assert sh(["git", "apply", diff]).returncode == 0
env = dict(os.environ); env["PYTHONDONTWRITEBYTECODE"] = "1"
t = sh(["/venv/bin/python", "-m", "pytest", "-q", "-p", "no:cacheprovider", "--timeout=900", "--continue-on-collection-errors", "tests"], env=env)
m = re.search(r"(\d+) passed", t.stdout); passed = int(m.group(1)) if m else -1
failed = re.search(r"(\d+) failed", t.stdout)
d_with = sh(["/venv/bin/python", demo], env=env).returncode
clean()
d_without = sh(["/venv/bin/python", demo], env=env).returncode
ok = passed == 171 and not failed and d_with != 0 and d_without == 0
print(f"{name}: suite passed={passed} failed={failed.group(1) if failed else 0}; demo with change rc={d_with}; without rc={d_without}; {'OK' if ok else 'REJECTED'}")
if ok:
    out = os.path.join("/verif/seeded", name); os.makedirs(out, exist_ok=True)
    shutil.copy(diff, os.path.join(out, "patch.diff")); shutil.copy(demo, os.path.join(out, "demo.py"))
    notes = open(os.path.join(wt, "NOTES.md")).read() if os.path.exists(os.path.join(wt, "NOTES.md")) else ""
    json.dump({"property": prop, "source": "independent sub-agent given only the property text", "needs": "see notes",
               "notes": notes, "verified": {"suite_passed_with_change": passed, "demo_rc_with_change": d_with, "demo_rc_without_change": d_without,
               "commands": ["git apply change.diff; /venv/bin/python -m pytest -q -p no:cacheprovider --timeout=900 --continue-on-collection-errors tests",
                            "/venv/bin/python demo.py (with / without the change)"]}}, open(os.path.join(out, "meta.json"), "w"), indent=1)
sys.exit(0 if ok else 1)
