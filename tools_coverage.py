#!/venv/bin/python
"""Reach measurement (not a check): line coverage of the repository's package by the
simulation workloads, one property at a time, in-process.  Prints, per anchored file of
the property, the executed fraction and the missed line ranges.
usage: PYTHONHASHSEED=0 NETQASM_VERIF_SIM=1 tools_coverage.py <PROP> [runs]"""
import json, os, sys
sys.path.insert(0, os.path.dirname(os.path.abspath(__file__)))
import coverage
prop = sys.argv[1]; n = int(sys.argv[2]) if len(sys.argv) > 2 else 400
cov = coverage.Coverage(data_file=None, include=["/repo/netqasm/*"], branch=False)
cov.start()
from sim import runner
runner._bootstrap()
import importlib
from sim.core import run_seed
mod = importlib.import_module(runner.PROPS[prop])
known, masks = runner.load_known(prop)
st = {}
for i in range(n):
    o = {"index": i, "avoid": set(masks) if i % 2 == 0 else set(), "tier": "quick"}
    r = runner.run_one(mod, prop, run_seed(1, prop, "quick", i), None, o)
    st[r["status"]] = st.get(r["status"], 0) + 1
cov.stop()
print(prop, st)
for l in open('/verif/properties.jsonl'):
    p = json.loads(l)
    if p['id'] == prop:
        break
for f in p['anchors']['files']:
    path = os.path.join('/repo', f)
    try:
        _, stmts, _, missing, fmt = cov.analysis2(path)
    except Exception as e:
        print(f, "not measured", e); continue
    print(f"{f}: {len(stmts)-len(missing)}/{len(stmts)} lines; missed: {fmt}")
