"""Batch runner: seeds -> simulated runs -> verdict, replay files, evidence.

Exit codes: 0 property held on everything explored (known findings are listed, not
alarms); 1 an unlisted violation (prints `VIOLATION property=<id> replay=<path>`);
2 harness error (never a verdict).
"""
from __future__ import annotations

import importlib
import json
import os
import re
import subprocess
import sys
import time
import traceback
from collections import Counter
from concurrent.futures import ProcessPoolExecutor
from typing import Any, Dict, List, Optional, Tuple

VERIF = os.path.dirname(os.path.dirname(os.path.abspath(__file__)))
REPO = os.environ.get("NETQASM_SRC", "/repo")
GUARD = "NETQASM_VERIF_SIM"

PROPS = {
    "C04": "sim.props.c04",
    "C05": "sim.props.c05",
    "C06": "sim.props.c06",
    "C08": "sim.props.c08",
    "C09": "sim.props.c09",
    "C10": "sim.props.c10",
    "C11": "sim.props.c11",
    "C12": "sim.props.c12",
    "C13": "sim.props.c13",
    "C14": "sim.props.c14",
    "C18": "sim.props.c18",
    "C20": "sim.props.c20",
}


def _bootstrap() -> None:
    """Make `import netqasm` resolve to the working tree under test, deterministically."""
    keep_hs = os.environ.get("VERIF_NO_REEXEC_HASHSEED") == "1" and os.environ.get("PYTHONHASHSEED") is not None
    if (os.environ.get("PYTHONHASHSEED") != "0" and not keep_hs) or os.environ.get(GUARD) != "1":
        env = dict(os.environ)
        if not keep_hs:
            env["PYTHONHASHSEED"] = "0"
        env[GUARD] = "1"
        os.execve(sys.executable, [sys.executable] + sys.argv, env)
    if VERIF not in sys.path:
        sys.path.insert(0, VERIF)
    # the tree under test wins over the editable-install finder
    sys.path.insert(0, REPO)
    import logging

    import netqasm  # noqa: F401

    got = os.path.dirname(os.path.dirname(os.path.abspath(netqasm.__file__)))
    if os.path.realpath(got) != os.path.realpath(REPO):
        print(f"HARNESS-ERROR: netqasm imported from {got}, expected {REPO}")
        sys.exit(2)
    logging.getLogger("NetQASM").setLevel(logging.ERROR)


# ---------------------------------------------------------------------------
# one run
# ---------------------------------------------------------------------------

def _classify_exception(e: BaseException) -> Tuple[str, str]:
    """('harness'|'repo', location) by the innermost frame of the traceback -- of the root cause when the exception was
    re-raised `from` another one (the executor wraps every fault of an instruction in "At line N: ..." that way; the
    place that matters is where the fault arose, whichever instruction happened to surface it)."""
    seen = 0
    while isinstance(e.__cause__, Exception) and seen < 8:
        e = e.__cause__
        seen += 1
    tb = traceback.extract_tb(e.__traceback__)
    inner = tb[-1] if tb else None
    if inner is None:
        return "harness", "?"
    fn = os.path.realpath(inner.filename)
    if fn.startswith(os.path.realpath(VERIF) + os.sep):
        return "harness", f"{os.path.relpath(fn, VERIF)}:{inner.name}"
    if fn.startswith(os.path.realpath(REPO) + os.sep):
        return "repo", f"{os.path.relpath(fn, REPO)}:{inner.name}"
    # stdlib / numpy frame: attribute to the closest frame of ours or the repo's
    for fr in reversed(tb):
        f2 = os.path.realpath(fr.filename)
        if f2.startswith(os.path.realpath(REPO) + os.sep):
            return "repo", f"{os.path.relpath(f2, REPO)}:{fr.name}"
        if f2.startswith(os.path.realpath(VERIF) + os.sep):
            return "harness", f"{os.path.relpath(f2, VERIF)}:{fr.name}"
    return "harness", "?"


def run_one(mod: Any, prop: str, seed: Optional[int], replay: Optional[List[int]], opts: Dict[str, Any]) -> Dict[str, Any]:
    """Execute one simulated run.  Returns a dict with 'status' in
    ok | discard | violation | harness."""
    from sim.core import Choices, Discard, Violation

    ch = Choices(seed=seed, replay=replay)
    out: Dict[str, Any] = {"status": "ok"}
    try:
        info = mod.run(ch, opts)
        out["info"] = info
    except Violation as v:
        out["status"] = "violation"
        out["oracle"] = v.oracle
        out["signature"] = v.signature
        out["detail"] = v.detail
        out["info"] = getattr(v, "info", None)
    except Discard as d:
        out["status"] = "discard"
        out["reason"] = d.reason
    except RecursionError as e:
        kind, loc = _classify_exception(e)
        out["status"] = "violation" if kind == "repo" else "harness"
        out["oracle"] = "unexpected-exception"
        out["signature"] = f"unexpected-exception|RecursionError|{loc}"
        out["detail"] = "RecursionError"
        out["tb"] = "RecursionError"
    except Exception as e:  # noqa: BLE001
        kind, loc = _classify_exception(e)
        if kind == "repo":
            out["status"] = "violation"
            out["oracle"] = "unexpected-exception"
            out["signature"] = f"unexpected-exception|{type(e).__name__}|{loc}"
            out["detail"] = "".join(traceback.format_exception(type(e), e, e.__traceback__))[-3000:]
        else:
            out["status"] = "harness"
            out["tb"] = "".join(traceback.format_exception(type(e), e, e.__traceback__))[-4000:]
    finally:
        if hasattr(mod, "cleanup"):
            try:
                mod.cleanup()
            except Exception:  # noqa: BLE001
                pass
    out["choices"] = ch.rec
    out["overrun"] = ch.overrun
    return out


def _in_child(fn: Any, *args: Any, watchdog_s: int = 900) -> Any:
    """Run fn(*args) in a forked child and return its (pickled) result.  The calling process never executes a
    simulated run itself, so every block of runs -- and every reproduction or shrink candidate -- starts from the
    same pristine interpreter state: state that a changed repository leaks between runs (module-level caches,
    mutable default arguments) cannot make a verdict depend on which runs happened earlier in the same process."""
    import pickle

    rfd, wfd = os.pipe()
    pid = os.fork()
    if pid == 0:
        code = 0
        try:
            os.close(rfd)
            import faulthandler
            faulthandler.dump_traceback_later(watchdog_s, exit=True)
            res = fn(*args)
            try:
                data = pickle.dumps(res, protocol=pickle.HIGHEST_PROTOCOL)
            except Exception:  # noqa: BLE001
                from sim.core import jsonable
                data = pickle.dumps(jsonable(res), protocol=pickle.HIGHEST_PROTOCOL)
            with os.fdopen(wfd, "wb") as f:
                f.write(data)
        except BaseException:  # noqa: BLE001
            traceback.print_exc()
            code = 3
        finally:
            os._exit(code)
    os.close(wfd)
    with os.fdopen(rfd, "rb") as f:
        data = f.read()
    _, status = os.waitpid(pid, 0)
    if not data:
        raise RuntimeError(f"isolated child died (wait status {status})")
    return pickle.loads(data)


def _worker(args: Tuple[str, int, str, int, int, Dict[str, Any]]) -> Dict[str, Any]:
    return _in_child(_worker_body, args, watchdog_s=int(args[5].get("watchdog_s", 300)) * 4)


def _worker_body(args: Tuple[str, int, str, int, int, Dict[str, Any]]) -> Dict[str, Any]:
    prop, batch_seed, tier, lo, hi, opts = args
    import faulthandler

    from sim.core import run_seed

    mod = importlib.import_module(PROPS[prop])
    agg: Dict[str, Any] = {
        "runs": 0, "ok": 0, "discard": 0, "events": 0, "sim_ns": 0,
        "faults": Counter(), "probes": Counter(), "fps": set(), "calm": 0,
        "discard_reasons": Counter(), "violations": [], "harness": [], "samples": [],
        "lo": lo, "hi": hi, "nontrivial": 0, "stopped_at": None,
    }
    seen_sig: Dict[str, int] = {}
    deadline = opts.get("deadline")
    for i in range(lo, hi):
        if (i - lo) % 50 == 0:
            faulthandler.dump_traceback_later(opts.get("watchdog_s", 300), exit=True)
            if deadline is not None and time.time() > deadline:
                agg["stopped_at"] = i
                break
        o = dict(opts)
        o["index"] = i
        # alternate: even runs avoid the shapes of recorded findings, odd runs do not
        o["avoid"] = set(opts.get("masks", ())) if (i % 2 == 0) else set()
        sd = run_seed(batch_seed, prop, tier, i)
        r = run_one(mod, prop, sd, None, o)
        agg["runs"] += 1
        st = r["status"]
        info = r.get("info")
        if info:
            agg["events"] += info.get("events", 0)
            agg["sim_ns"] += info.get("sim_ns", 0)
            agg["faults"].update(info.get("faults", {}))
            agg["probes"].update(info.get("probes", {}))
            if info.get("calm"):
                agg["calm"] += 1
            if info.get("nontrivial"):
                agg["nontrivial"] += 1
                agg["fps"].add(info.get("fingerprint"))
            if len(agg["samples"]) < 2 and info.get("sample") is not None and info.get("nontrivial"):
                agg["samples"].append({"index": i, "seed": sd, **info["sample"]})
        if st == "ok":
            agg["ok"] += 1
        elif st == "discard":
            agg["discard"] += 1
            agg["discard_reasons"][r["reason"]] += 1
        elif st == "violation":
            sig = r["signature"]
            seen_sig[sig] = seen_sig.get(sig, 0) + 1
            if seen_sig[sig] <= 1:
                agg["violations"].append({
                    "index": i, "seed": sd, "oracle": r["oracle"], "signature": sig,
                    "detail": r.get("detail"), "choices": r["choices"], "avoid": sorted(o["avoid"]),
                    "block_lo": lo,
                })
        else:
            if len(agg["harness"]) < 3:
                agg["harness"].append({"index": i, "seed": sd, "tb": r.get("tb")})
    faulthandler.cancel_dump_traceback_later()
    agg["sig_counts"] = seen_sig
    agg["fps"] = sorted(x for x in agg["fps"] if x is not None)
    agg["faults"] = dict(agg["faults"])
    agg["probes"] = dict(agg["probes"])
    agg["discard_reasons"] = dict(agg["discard_reasons"])
    return agg


# ---------------------------------------------------------------------------
# known findings
# ---------------------------------------------------------------------------

def load_known(prop: str) -> Tuple[List[Dict[str, Any]], List[str]]:
    path = os.path.join(VERIF, "known_findings.json")
    if not os.path.exists(path):
        return [], []
    with open(path) as f:
        data = json.load(f)
    return [k for k in data.get("findings", []) if k["property"] == prop], data.get("fixed", [])


def match_known(known: List[Dict[str, Any]], signature: str, avoid: Any = ()) -> Optional[Dict[str, Any]]:
    """A listed finding explains a violation only if its signature matches AND the run did
    not avoid the finding's triggering shape (a run that avoids the shape cannot have hit it)."""
    for k in known:
        if k.get("mask") and k["mask"] in avoid:
            continue
        if re.fullmatch(k["signature_regex"], signature):
            return k
    return None


# ---------------------------------------------------------------------------
# replay / shrink
# ---------------------------------------------------------------------------

def sig_class(sig: str) -> str:
    """Signature class used while shrinking: the signature itself (signatures are
    already class-level: oracle id + failing shape, never raw values)."""
    return sig


def minimise(mod: Any, prop: str, v: Dict[str, Any], opts: Dict[str, Any], budget: int) -> Dict[str, Any]:
    from sim.core import shrink

    target = sig_class(v["signature"])
    o = dict(opts)
    o["avoid"] = set(v.get("avoid", ()))
    o["index"] = v["index"]

    def still(cand: List[int]) -> Optional[List[int]]:
        try:
            r = _in_child(run_one, mod, prop, None, cand, o, watchdog_s=240)
        except RuntimeError:
            return None      # a candidate that kills or hangs its child is simply not a smaller reproduction
        if r["status"] == "violation" and sig_class(r["signature"]) == target:
            return r["choices"]
        return None

    # first make sure the original record reproduces in this process
    eff = still(v["choices"])
    if eff is None:
        return {"reproduced": False}
    small = shrink(eff, still, budget=budget, wall_s=20.0 if opts.get("tier") == "quick" else 90.0)
    r = _in_child(run_one, mod, prop, None, small, {**o, "want_trace": True})
    return {
        "reproduced": r["status"] == "violation" and r["signature"] == v["signature"],
        "choices": r["choices"], "signature": r.get("signature"), "oracle": r.get("oracle"),
        "detail": r.get("detail"),
        "decoded": (r.get("info") or {}),
        "orig_len": len(v["choices"]), "min_len": len(r["choices"]),
    }


def _run_sequence(prop: str, batch_seed: int, tier: str, lo: int, index: int, opts: Dict[str, Any]) -> Dict[str, Any]:
    """Runs lo..index of a batch one after the other in this process and returns the result of the last one: the
    replay form for a violation that needs what earlier runs of its block left behind in the interpreter."""
    from sim.core import run_seed

    mod = importlib.import_module(PROPS[prop])
    r: Dict[str, Any] = {"status": "ok"}
    for i in range(lo, index + 1):
        o = dict(opts)
        o["index"] = i
        o["avoid"] = set(opts.get("masks", ())) if (i % 2 == 0) else set()
        if i == index:
            o["want_trace"] = True
        r = run_one(mod, prop, run_seed(batch_seed, prop, tier, i), None, o)
    return r


def write_sequence_replay(prop: str, tier: str, batch_seed: int, v: Dict[str, Any], r: Dict[str, Any], masks: List[str]) -> str:
    d = os.path.join(VERIF, "replays")
    os.makedirs(d, exist_ok=True)
    path = os.path.join(d, f"{prop}-{v['seed']:016x}-seq.json")
    from sim.core import jsonable

    rep = {
        "property": prop, "tier": tier, "kind": "sequence", "batch_seed": batch_seed, "block_lo": v["block_lo"],
        "index": v["index"], "seed": v["seed"], "masks": masks,
        "note": "the violation does not occur when run " + str(v["index"]) + " is executed alone in a fresh interpreter: it needs "
                "state that the earlier runs of its block left behind in the process (state surviving what should have "
                "been a clean start); the replay executes runs block_lo..index of the batch in one fresh process",
        "violation": {"oracle": r.get("oracle"), "signature": r.get("signature"), "detail": r.get("detail")},
    }
    with open(path, "w") as f:
        json.dump(jsonable(rep), f, indent=1)
    return path


def write_replay(prop: str, tier: str, v: Dict[str, Any], m: Dict[str, Any]) -> str:
    d = os.path.join(VERIF, "replays")
    os.makedirs(d, exist_ok=True)
    path = os.path.join(d, f"{prop}-{v['seed']:016x}.json")
    rep = {
        "property": prop, "tier": tier, "seed": v["seed"], "index": v["index"],
        "avoid": v.get("avoid", []),
        "choices": m["choices"],
        "violation": {"oracle": m["oracle"], "signature": m["signature"], "detail": m["detail"]},
        "decoded": m.get("decoded"),
        "original_choices_len": m.get("orig_len"),
    }
    from sim.core import jsonable

    with open(path, "w") as f:
        json.dump(jsonable(rep), f, indent=1)
    return path


def replay_file(prop: str, path: str, quiet: bool = False) -> int:
    mod = importlib.import_module(PROPS[prop])
    with open(path) as f:
        rep = json.load(f)
    if rep.get("kind") == "sequence":
        r = _run_sequence(prop, rep["batch_seed"], rep.get("tier", "quick"), rep["block_lo"], rep["index"],
                          {"tier": rep.get("tier", "quick"), "masks": rep.get("masks", [])})
    else:
        opts = {"avoid": set(rep.get("avoid", [])), "index": rep.get("index", 0), "tier": rep.get("tier", "quick"),
                "want_trace": True}
        r = run_one(mod, prop, None, rep["choices"], opts)
    want = rep["violation"]["signature"]
    if r["status"] == "violation" and r["signature"] == want:
        if not quiet:
            print(f"replay reproduces: {r['oracle']}: {r['signature']}")
            from sim.core import jsonable
            print(json.dumps(jsonable(r.get("detail")), indent=1)[:6000])
        print(f"VIOLATION property={prop} replay={path}")
        return 1
    if r["status"] == "harness":
        print("HARNESS-ERROR during replay:\n" + str(r.get("tb")))
        return 2
    print(f"replay does NOT reproduce (status={r['status']}, signature={r.get('signature')}, wanted={want})")
    return 0


# ---------------------------------------------------------------------------
# evidence
# ---------------------------------------------------------------------------

def check_evidence(ev: Dict[str, Any]) -> None:
    """Minimal structural validation mirroring EVIDENCE.schema.json (jsonschema is not
    installed in /venv; selftest/validate_evidence.py runs the real schema under
    python3-vt)."""
    for k in ("property_id", "tier", "seed", "level", "coverage", "wall_s"):
        assert k in ev, f"evidence lacks {k}"
    assert ev["tier"] in ("quick", "thorough")
    assert isinstance(ev["seed"], int)
    c = ev["coverage"]
    assert isinstance(c["evaluations"], int) and c["evaluations"] >= 1
    assert isinstance(c["distinct_nontrivial"], int) and c["distinct_nontrivial"] >= 2, "distinct_nontrivial < 2"
    assert isinstance(c["rule"], str)
    assert isinstance(c["samples"], list) and len(c["samples"]) >= 1


def main(argv: Optional[List[str]] = None) -> int:
    _bootstrap()
    import argparse

    ap = argparse.ArgumentParser(prog="check")
    ap.add_argument("prop")
    ap.add_argument("--tier", default=os.environ.get("VERIF_TIER", "quick"), choices=["quick", "thorough"])
    ap.add_argument("--replay")
    ap.add_argument("--runs", type=int, default=int(os.environ.get("VERIF_RUNS", "0")))
    ap.add_argument("--workers", type=int, default=int(os.environ.get("VERIF_WORKERS", "0")))
    ap.add_argument("--budget-s", type=float, default=float(os.environ.get("VERIF_BUDGET_S", "0")))
    ap.add_argument("--no-evidence", action="store_true")
    ap.add_argument("--quiet", action="store_true")
    ap.add_argument("--digest", action="store_true", help="print per-run trace digests (determinism self-test)")
    ap.add_argument("--start", type=int, default=0, help="first run index for --digest")
    a = ap.parse_args(argv)
    prop = a.prop.upper()
    if prop not in PROPS:
        print(f"unknown or unclaimed property {prop}")
        return 2
    if a.replay:
        return replay_file(prop, a.replay, a.quiet)

    from sim.core import jsonable

    t0 = time.time()
    batch_seed = int(os.environ.get("VERIF_SEED", "0"))
    mod = importlib.import_module(PROPS[prop])
    tier = a.tier
    nruns = a.runs or mod.RUNS[tier]
    workers = a.workers or min(16, os.cpu_count() or 1)
    budget_s = a.budget_s or mod.BUDGET_S[tier]
    known, fixed = load_known(prop)
    masks = sorted({k["mask"] for k in known if k.get("mask")})
    opts = {"tier": tier, "masks": masks, "deadline": t0 + budget_s, "watchdog_s": 300}

    if a.digest:
        # determinism self-test support: print digest per run, single process
        from sim.core import run_seed
        for i in range(a.start, nruns):
            o = dict(opts); o["index"] = i; o["avoid"] = set(masks) if i % 2 == 0 else set()
            r = run_one(mod, prop, run_seed(batch_seed, prop, tier, i), None, o)
            d = (r.get("info") or {}).get("digest")
            print(i, r["status"], d, r.get("signature", ""), len(r["choices"]))
        return 0

    # contiguous blocks, merged in index order => verdict independent of worker count
    nblocks = max(workers * 4, 1)
    per = max(1, (nruns + nblocks - 1) // nblocks)
    blocks = [(prop, batch_seed, tier, lo, min(nruns, lo + per), opts) for lo in range(0, nruns, per)]
    import multiprocessing as mp

    results: List[Dict[str, Any]] = []
    try:
        if workers == 1:
            results = [_worker(b) for b in blocks]
        else:
            with ProcessPoolExecutor(max_workers=workers, mp_context=mp.get_context("fork")) as ex:
                results = list(ex.map(_worker, blocks))
    except Exception as e:  # noqa: BLE001 - worker death, watchdog
        print(f"HARNESS-ERROR: worker pool failed: {type(e).__name__}: {e}")
        return 2
    results.sort(key=lambda r: r["lo"])

    tot = Counter()
    faults: Counter = Counter()
    probes: Counter = Counter()
    fps: set = set()
    disc: Counter = Counter()
    sigc: Counter = Counter()
    vio: List[Dict[str, Any]] = []
    harness: List[Dict[str, Any]] = []
    samples: List[Any] = []
    truncated = False
    for r in results:
        for k in ("runs", "ok", "discard", "events", "sim_ns", "calm", "nontrivial"):
            tot[k] += r[k]
        faults.update(r["faults"]); probes.update(r["probes"]); fps.update(r["fps"])
        disc.update(r["discard_reasons"]); sigc.update(r["sig_counts"])
        vio.extend(r["violations"]); harness.extend(r["harness"])
        if len(samples) < 3:
            samples.extend(r["samples"][: 3 - len(samples)])
        if r["stopped_at"] is not None:
            truncated = True

    if harness:
        print(f"HARNESS-ERROR property={prop}: {len(harness)} run(s) failed inside /verif code")
        print(harness[0]["tb"])
        return 2

    # group violations by signature, first occurrence in index order
    vio.sort(key=lambda v: v["index"])
    # group by (signature, explained-by-a-listed-finding?): a violation in a run that avoided the
    # finding's shape is never explained by that finding
    first: Dict[str, Dict[str, Any]] = {}
    for v in vio:
        k0 = match_known(known, v["signature"], v.get("avoid", ()))
        key = v["signature"] + ("|@known:" + k0["id"] if k0 else "")
        v["_known"] = k0
        first.setdefault(key, v)

    new_violations: List[Tuple[Dict[str, Any], str]] = []
    extra_sigs: List[str] = []
    MAX_MINIMISED = 3
    known_hit: Dict[str, int] = {}
    rc = 0
    shrink_budget = 400 if tier == "quick" else 1500
    for key, v in first.items():
        sig = v["signature"]
        k = v["_known"]
        if k is not None:
            known_hit[k["id"]] = known_hit.get(k["id"], 0) + sigc[sig]
            continue
        if len(new_violations) >= MAX_MINIMISED:
            extra_sigs.append(sig)
            continue
        m = minimise(mod, prop, v, opts, shrink_budget)
        if not m.get("reproduced"):
            # not reproducible alone from a pristine interpreter: does it need what the earlier runs of its block left behind?
            sr = _in_child(_run_sequence, prop, batch_seed, tier, v["block_lo"], v["index"], opts)
            if not (sr["status"] == "violation" and sr["signature"] == sig):
                if rc == 1:
                    # a reproducible violation has been reported already: this further signature is left out, not believed
                    extra_sigs.append(sig + " (did not reproduce on its own; not reported)")
                    continue
                print(f"HARNESS-ERROR property={prop}: violation '{sig}' (index {v['index']}, seed {v['seed']}) "
                      f"did not reproduce from its own choice record nor from its block's run sequence")
                return 2
            path = write_sequence_replay(prop, tier, batch_seed, v, sr, masks)
            m = {"orig_len": len(v["choices"]), "min_len": len(v["choices"]), "sequence": True,
                 "oracle": sr.get("oracle"), "signature": sr.get("signature")}
        else:
            path = write_replay(prop, tier, v, m)
        # independent confirmation in a fresh interpreter
        cp = subprocess.run([sys.executable, os.path.join(VERIF, "check"), prop, "--replay", path, "--quiet"],
                            capture_output=True, text=True, timeout=600)
        if cp.returncode != 1 and rc == 1:
            extra_sigs.append(sig + " (replay did not reproduce in a fresh interpreter; not reported)")
            continue
        if cp.returncode != 1:
            print(f"HARNESS-ERROR property={prop}: replay file {path} does not reproduce in a fresh interpreter\n"
                  f"{cp.stdout[-2000:]}\n{cp.stderr[-2000:]}")
            return 2
        new_violations.append((v, path))
        print(f"violation: {m['oracle']}: {m['signature']}  (first at run {v['index']}, seed {v['seed']}, "
              f"{sigc[sig]} run(s); minimised {m['orig_len']} -> {m['min_len']} choices)")
        print(f"VIOLATION property={prop} replay={path}")
        rc = 1

    if extra_sigs:
        print(f"{len(extra_sigs)} further violation signature(s) not minimised: {extra_sigs[:8]}")
    for k in known:
        if k["id"] in known_hit:
            print(f"KNOWN-FINDING: property={prop} {k['what']}  [{k['id']}: reproduced in {known_hit[k['id']]} run(s)]")
        else:
            print(f"KNOWN-FINDING: property={prop} {k['what']}  [{k['id']}: not reproduced by this batch]")

    wall = time.time() - t0
    zero_probes = [p for p in getattr(mod, "PROBES", []) if probes.get(p, 0) == 0]
    if zero_probes and not a.quiet:
        print(f"warning: reach probes at zero: {zero_probes}")
    ev = {
        "property_id": prop,
        "tier": tier,
        "seed": batch_seed,
        "level": "exploration",
        "coverage": {
            "evaluations": tot["runs"],
            "distinct_nontrivial": len(fps),
            "rule": mod.RULE,
            "samples": samples if samples else [{"note": "no non-trivial sample captured"}],
            "runs_ok": tot["ok"], "runs_discarded": tot["discard"], "discard_reasons": dict(disc),
            "runs_nontrivial": tot["nontrivial"],
            "runs_calm_config": tot["calm"], "runs_stormy_config": tot["runs"] - tot["calm"],
            "events_total": tot["events"],
            "simulated_time_ns": tot["sim_ns"],
            "runs_per_hour": int(tot["runs"] / max(wall, 1e-6) * 3600),
            "workers": workers,
            "fault_kinds_fired": dict(sorted(faults.items())),
            "reach_probes": dict(sorted(probes.items())),
            "reach_probes_at_zero": zero_probes,
            "components": mod.COMPONENTS,
            "truncated_by_wall_budget": truncated,
            "planned_runs": nruns,
            "known_findings_reproduced": known_hit,
            "known_findings_listed": [k["id"] for k in known],
            "new_violation_signatures": [v["signature"] for v, _ in new_violations] + extra_sigs,
            "technique": "deterministic simulation with fault injection: seeded search over schedules, "
                         "faults and workloads; oracle per run; replay = recorded choice stream",
        },
        "assumptions": mod.ASSUMPTIONS,
        "wall_s": round(wall, 3),
        "violations": len(new_violations),
    }
    if not a.no_evidence:
        try:
            check_evidence(ev)
        except AssertionError as e:
            print(f"HARNESS-ERROR property={prop}: evidence invalid: {e}")
            return 2
        os.makedirs(os.path.join(VERIF, "evidence"), exist_ok=True)
        with open(os.path.join(VERIF, "evidence", f"{prop}.json"), "w") as f:
            json.dump(jsonable(ev), f, indent=1, sort_keys=True)
    if not a.quiet:
        print(f"{prop} {tier}: runs={tot['runs']} ok={tot['ok']} discarded={tot['discard']} "
              f"nontrivial-distinct={len(fps)} events={tot['events']} wall={wall:.1f}s "
              f"violations={len(new_violations)} known={sum(known_hit.values())}")
    return rc


if __name__ == "__main__":
    sys.exit(main())
