"""Reference matcher for entanglement responses (C12), usable on any simulated node.

Observes the issue of create_epr / recv_epr instructions and wait instructions through the
executor's after-instruction hook, and judges the final state against the link layer's own
record of what it delivered: per (role, remote node, purpose) the j-th delivered response
belongs to the j-th pair slot of the requests in issue order.
"""
from __future__ import annotations

from typing import Any, Callable, Dict, List, Optional, Tuple

from netqasm.qlink_compat import RequestType

from sim.core import Violation


def expected_slice(d: Dict[str, Any]) -> List[int]:
    """The array slice a delivered response must produce, from the link's own record of the pair."""
    rec = d["rec"]
    job = rec["job"]
    role = d["role"]
    dflag = 0 if role == "create" else 1
    resp = d["resp"]
    good = getattr(resp, "goodness")
    if job["type"] == RequestType.K or (job["type"] == RequestType.R and role == "recv"):
        phys = rec["phys_c"] if role == "create" else rec["phys_r"]
        tgood = getattr(resp, "time_of_goodness", None)
        if tgood is None:
            tgood = getattr(resp, "goodness_time")
        return [0, job["create_id"], phys, dflag, rec["seq"], d["purpose"], d["remote"], good, tgood, rec["bell"].value]
    out = rec["out_c"] if role == "create" else rec["out_r"]
    basis = rec["basis_c"] if role == "create" else rec["basis_r"]
    return [1, job["create_id"], out, basis.value, dflag, rec["seq"], d["purpose"], d["remote"], good, rec["bell"].value]


class EprMonitor:
    def __init__(self, node: Any, link: Any, bump: Callable[[str], None], tail: Callable[[], Any]):
        self.node = node
        self.link = link
        self.bump = bump
        self.tail = tail
        self.issued: List[Dict[str, Any]] = []
        self.prev_map: Dict[Tuple[int, int], int] = {}
        self.freed: Optional[Tuple[int, int]] = None
        node.env.after_instr.append(self._after_instr)

    # -- step monitors -------------------------------------------------------
    def _after_instr(self, exr, sid, pc, command) -> None:
        mn = command.mnemonic
        aid = exr._get_app_id(sid)
        me = self.node.env.node_id
        if mn in ("create_epr", "recv_epr"):
            remote = exr._get_register(aid, command.remote_node_id)
            sock = exr._get_register(aid, command.epr_socket_id)
            ent = exr._get_register(aid, command.ent_results_array)
            qa = exr._get_register(aid, command.qubit_addr_array)
            n = len(exr._app_arrays[aid]._arrays[ent]) // 10
            role = "create" if mn == "create_epr" else "recv"
            purpose = self.node.stack.pfun(sock, remote)
            key = (role, remote, purpose)
            rq = exr._epr_create_requests if role == "create" else exr._epr_recv_requests
            if len(rq[(remote, purpose)]) > 1:
                self.bump("two-requests-one-key")
            early = sum(1 for d in self.link.delivered if d["dest"] == me and (d["role"], d["remote"], d["purpose"]) == key) - \
                sum(x["n"] for x in self.issued if x["key"] == key)
            if early > 0:
                self.bump("early-response")
            self.issued.append({"key": key, "app": aid, "sid": sid, "ent": ent, "qa": qa, "n": n, "order": len(self.issued)})
            self.bump(role + "-role")
        elif mn == "qfree":
            self.freed = (aid, exr._get_register(aid, command.reg))
        elif mn in ("wait_all", "wait_any", "wait_single"):
            arrs = exr._app_arrays[aid]._arrays
            if mn == "wait_single":
                i = exr._get_register(aid, command.entry.index)
                vals = [arrs[command.entry.address.address][i]]
                ok = vals[0] is not None
            else:
                a0 = exr._get_register(aid, command.slice.start)
                a1 = exr._get_register(aid, command.slice.stop)
                vals = arrs[command.slice.address.address][a0:a1]
                ok = all(v is not None for v in vals) if mn == "wait_all" else any(v is not None for v in vals)
            if not ok:
                raise Violation("wait", f"wait|resumed-before-condition|{mn}", {"app": aid, "pc": pc, "values": vals,
                                                                                "node": me, "trace": self.tail()})

    def unit_maps(self) -> Dict[Tuple[int, int], int]:
        return {(aid, v): p for aid, um in self.node.ex._qubit_unit_modules.items() for v, p in enumerate(um) if p is not None}

    def check_step(self) -> None:
        ex = self.node.ex
        cur = self.unit_maps()
        for kx, p in self.prev_map.items():
            q = cur.get(kx)
            if q is not None and q != p:
                raise Violation("remap", "remap|allocated-virtual-qubit-overwritten",
                                {"qubit": kx, "from": p, "to": q, "trace": self.tail()})
        for reqs in list(ex._epr_create_requests.values()) + list(ex._epr_recv_requests.values()):
            for r in reqs:
                if not (0 < r.pairs_left <= r.tot_pairs):
                    raise Violation("queue", "queue|pairs-left-out-of-range",
                                    {"pairs_left": r.pairs_left, "tot": r.tot_pairs, "trace": self.tail()})
        self.prev_map = cur
        self.freed = None

    # -- final matcher ---------------------------------------------------------
    def final(self, check_mapping: bool = True) -> None:
        ex = self.node.ex
        me = self.node.env.node_id
        slots: Dict[Tuple[str, int, int], List[Tuple[dict, int]]] = {}
        for x in self.issued:
            for kk in range(x["n"]):
                slots.setdefault(x["key"], []).append((x, kk))
        per_key: Dict[Tuple[str, int, int], int] = {}
        seen = set()
        last_order = -1
        mine = [d for d in self.link.delivered if d["dest"] == me]
        for d in mine:
            key = (d["role"], d["remote"], d["purpose"])
            j = per_key.get(key, 0)
            per_key[key] = j + 1
            if key not in slots or j >= len(slots[key]):
                raise Violation("matcher", "matcher|response-without-request", {"node": me, "key": key, "trace": self.tail()})
            x, kk = slots[key][j]
            if x["order"] < last_order:
                self.bump("cross-key-reorder")
            last_order = max(last_order, x["order"])
            want = expected_slice(d)
            arrs = ex._app_arrays.get(x["app"])
            if arrs is None:
                continue   # the application has been stopped: its arrays are gone
            if any(y is not x and y["order"] > x["order"] and (y["app"], y["sid"], y["ent"]) == (x["app"], x["sid"], x["ent"])
                   for y in self.issued):
                continue   # an earlier attempt of a re-tried request: the same subroutine asked again into the same array
            arr = arrs._arrays[x["ent"]]
            got = arr[10 * kk:10 * (kk + 1)]
            if got != want:
                cls = "wrong-slice" if any(arr[10 * q:10 * (q + 1)] == want for q in range(x["n"])) else "wrong-content"
                raise Violation("matcher", f"matcher|{cls}|{d['role']}|{'K' if want[0] == 0 else 'M'}",
                                {"node": me, "key": key, "pair": kk, "got": got, "want": want, "trace": self.tail()})
            sl = (x["app"], x["ent"], x["order"], kk)
            if sl in seen:
                raise Violation("matcher", "matcher|slice-filled-twice", {"node": me, "slice": sl, "trace": self.tail()})
            seen.add(sl)
        total = sum(len(v) for v in slots.values())
        if len(mine) != total:
            raise Violation("matcher", "matcher|requests-finished-with-missing-responses",
                            {"node": me, "delivered": len(mine), "slots": total, "trace": self.tail()})
        left = [k for k, v in list(ex._epr_create_requests.items()) + list(ex._epr_recv_requests.items()) if v]
        if left or ex._pending_epr_responses:
            raise Violation("queue", "queue|not-empty-when-quiescent",
                            {"node": me, "requests": left, "pending": len(ex._pending_epr_responses), "trace": self.tail()})
