"""Reference interpreter for the classical NetQASM core, written from the instruction
definitions (docs/ + the property statement), importing nothing from netqasm.

Program form: list of tuples, registers are ("R"|"C"|"Q"|"M", index):
  ("set", reg, imm)
  ("add"|"sub", rout, ra, rb)            ("addm"|"subm", rout, ra, rb, rmod)
  ("array", rsize, addr)                 ("lea", reg, addr)
  ("store"|"load", reg, addr, ridx)      ("undef", addr, ridx)
  ("wait_single", addr, ridx)            (returns the same pc while the entry is undefined: blocked)
  ("beq"|"bne"|"blt"|"bge", ra, rb, target)   ("bez"|"bnz", ra, target)   ("jmp", target)
  ("ret_reg", reg)  ("ret_arr", addr)
  ("qalloc"|"qfree"|"init", reg)         (gate, reg) for x y z h k s t
"""
from __future__ import annotations

from typing import Any, Dict, List, Optional, Set, Tuple

Reg = Tuple[str, int]
INT_MIN = -(2 ** 31)
INT_MAX = 2 ** 31 - 1

MAX_ARRAY = 64

GATES1 = ("x", "y", "z", "h", "k", "s", "t")


class RefFault(Exception):
    def __init__(self, kind: str):
        super().__init__(kind)
        self.kind = kind


class OutOfDomain(Exception):
    """The program did something the property does not classify."""


class AppState:
    def __init__(self, unit_size: int):
        self.regs: Dict[Reg, int] = {}
        self.arrays: Dict[int, List[Optional[int]]] = {}
        self.shm_regs: Dict[Reg, int] = {}
        self.shm_arrays: Dict[int, List[Optional[int]]] = {}
        self.qubits: Set[int] = set()
        self.unit_size = unit_size

    def snapshot(self) -> Any:
        return (
            tuple(sorted(self.regs.items())),
            tuple(sorted((a, tuple(v)) for a, v in self.arrays.items())),
            tuple(sorted(self.shm_regs.items())),
            tuple(sorted(self.qubits)),
        )


def _rd(st: AppState, r: Reg) -> int:
    v = st.regs.get(r)
    if v is None:
        raise OutOfDomain(f"read of undefined register {r}")
    return v


def _chk(v: int) -> int:
    if not (INT_MIN <= v <= INT_MAX):
        raise OutOfDomain("32-bit overflow")
    return v


def _entry(st: AppState, addr: int, ridx: Reg) -> Tuple[List[Optional[int]], int]:
    idx = st.regs.get(ridx)
    if idx is None:
        raise RefFault("index-register-undefined")
    if idx < 0:
        raise OutOfDomain("negative index")
    arr = st.arrays.get(addr)
    if arr is None:
        raise RefFault("no-such-array")
    if idx >= len(arr):
        raise RefFault("index-past-end")
    return arr, idx


def step(st: AppState, prog: List[tuple], pc: int) -> int:
    """Execute prog[pc]; returns the next pc.  Raises RefFault when the instruction
    faults (state unchanged), OutOfDomain when the behaviour is unspecified."""
    ins = prog[pc]
    op = ins[0]
    if op == "set":
        st.regs[ins[1]] = ins[2]
        return pc + 1
    if op in ("add", "sub"):
        a, b = _rd(st, ins[2]), _rd(st, ins[3])
        st.regs[ins[1]] = _chk(a + b if op == "add" else a - b)
        return pc + 1
    if op in ("addm", "subm"):
        m = _rd(st, ins[4])
        if m < 1:
            raise RefFault("modulus-below-one")
        a, b = _rd(st, ins[2]), _rd(st, ins[3])
        v = (a + b) if op == "addm" else (a - b)
        _chk(v)
        # mathematical residue in [0, m)
        r = v - m * (v // m)
        st.regs[ins[1]] = r
        return pc + 1
    if op == "array":
        n = _rd(st, ins[1])
        if n < 0:
            raise OutOfDomain("negative array size")
        if n > MAX_ARRAY:
            raise OutOfDomain("array size beyond the explored bound")
        st.arrays[ins[2]] = [None] * n
        return pc + 1
    if op == "lea":
        st.regs[ins[1]] = ins[2]
        return pc + 1
    if op == "store":
        v = st.regs.get(ins[1])
        if v is None:
            raise RefFault("store-undefined-register")
        arr, i = _entry(st, ins[2], ins[3])
        arr[i] = v
        return pc + 1
    if op == "load":
        arr, i = _entry(st, ins[2], ins[3])
        if arr[i] is None:
            raise RefFault("load-undefined-entry")
        st.regs[ins[1]] = arr[i]  # type: ignore[assignment]
        return pc + 1
    if op == "undef":
        arr, i = _entry(st, ins[1], ins[2])
        arr[i] = None
        return pc + 1
    if op == "wait_single":
        if ins[1] not in st.arrays and st.regs.get(ins[2]) is not None and st.regs[ins[2]] >= 0:
            return pc        # an array nobody declared yet has no defined entry: the wait blocks (it is not a fault)
        arr, i = _entry(st, ins[1], ins[2])
        return pc if arr[i] is None else pc + 1
    if op in ("beq", "bne", "blt", "bge"):
        a, b = _rd(st, ins[1]), _rd(st, ins[2])
        taken = {"beq": a == b, "bne": a != b, "blt": a < b, "bge": a >= b}[op]
        return ins[3] if taken else pc + 1
    if op in ("bez", "bnz"):
        a = _rd(st, ins[1])
        taken = (a == 0) if op == "bez" else (a != 0)
        return ins[2] if taken else pc + 1
    if op == "jmp":
        return ins[1]
    if op == "ret_reg":
        v = st.regs.get(ins[1])
        if v is None:
            raise RefFault("return-undefined-register")
        st.shm_regs[ins[1]] = v
        return pc + 1
    if op == "ret_arr":
        arr = st.arrays.get(ins[1])
        if arr is None:
            raise RefFault("no-such-array")
        st.shm_arrays[ins[1]] = list(arr)
        return pc + 1
    if op == "qalloc":
        a = _rd(st, ins[1])
        if a < 0:
            raise OutOfDomain("negative qubit address")
        if a >= st.unit_size:
            raise RefFault("outside-unit-module")
        if a in st.qubits:
            raise RefFault("double-allocation")
        st.qubits.add(a)
        return pc + 1
    if op == "qfree":
        a = _rd(st, ins[1])
        if a < 0:
            raise OutOfDomain("negative qubit address")
        if a >= st.unit_size:
            raise RefFault("outside-unit-module")
        if a not in st.qubits:
            raise RefFault("free-unallocated")
        st.qubits.discard(a)
        return pc + 1
    if op == "init" or op in GATES1:
        a = _rd(st, ins[1])
        if a < 0:
            raise OutOfDomain("negative qubit address")
        if a >= st.unit_size or a not in st.qubits:
            raise RefFault("gate-on-unallocated")
        return pc + 1
    raise ValueError(f"reference interpreter: unknown op {op}")
