"""Host-program AST, generator, and the *direct evaluator* (reference semantics).

The AST describes a host program in terms of what the SDK documents: qubits, gates,
measurement into futures / array slots / register futures, arrays with initial values,
if (six conditions, context or callback form), loop / loop_body / foreach / enumerate,
loop_until with an at-most exit condition, add on futures (with and without modulus),
flush.  The direct evaluator executes it with plain Python semantics; the SDK driver
(sim/rigs/host.py) issues the real SDK calls for the same AST.

Statements (tuples):
  ("qubit", q)                          ("gate", g, q)            ("rot", axis, q, n, d)
  ("two", "cnot"|"cphase", q1, q2)
  ("measure", q, target, inplace)       target: ("new", f) | ("arr", a, idx) | ("reg", r) | ("elt", k)
                                        idx: int | ("loopidx", k)
  ("array", a, init_values)
  ("if", cond, opA, opB, form, body)    op: ("lit", v) | ("fut", f) | ("arrfut", a, idx) | ("regfut", r)
                                            | ("loopidx", k) | ("elt", k);  form: "ctx" | "cb"
  ("loop", n, form, body)               form: "ctx" | "cb"
  ("foreach", a, body)  ("enumerate", a, body)
  ("loop_until", max, body, f, v[, cleanup])   f: future name measured in body; cleanup: statements of the clean-up routine
  ("add", target, other, mod)           target: ("fut", f) | ("arrfut", a, idx) | ("regfut", r) | ("elt", k)
  ("flush",)
k counts enclosing loops/foreachs from the outermost (0) inwards.
"""
from __future__ import annotations

import math
from typing import Any, Callable, Dict, List, Optional, Tuple

from sim.core import Choices

GATES = ["X", "Y", "Z", "H", "K", "S", "T"]
CONDS = ["eq", "ne", "lt", "ge", "ez", "nz"]


def norm_angle(angle: float) -> int:
    return round(angle / (2 * math.pi) * 65536) % 65536


class EvalUndefined(Exception):
    pass


# ---------------------------------------------------------------------------
# direct evaluator
# ---------------------------------------------------------------------------

class Evaluator:
    def __init__(self, outcome: Callable[[int], int], loop_until_strict: bool = False):
        self.outcome = outcome
        self.loop_until_strict = loop_until_strict  # alternative semantics used only to *name* a known defect
        self.qubits: Dict[str, Optional[int]] = {}
        self.next_inst = 0
        self.arrays: Dict[str, List[Optional[int]]] = {}
        self.futs: Dict[str, Tuple[str, int]] = {}     # future name -> (array name, index)
        self.regs: Dict[str, Optional[int]] = {}
        self.trace: List[tuple] = []
        self.nmeas = 0
        self.loops: List[Dict[str, Any]] = []          # enclosing loop frames: {"i": int, "elt": (a, i) | None}
        self.steps = 0
        self.stats: Dict[str, int] = {}

    # -- references --------------------------------------------------------
    def _idx(self, idx: Any) -> int:
        if isinstance(idx, int):
            return idx
        if idx[0] == "loopidx":
            return self.loops[idx[1]]["i"]
        if idx[0] == "futidx":
            return self.value(("fut", idx[1]))      # an element addressed by the value of another future
        raise ValueError(idx)

    def ref(self, op: tuple) -> Tuple[str, Any]:
        """-> ("arr", name, i) or ("reg", name)"""
        k = op[0]
        if k in ("fut", "new"):
            a, i = self.futs[op[1]]
            return ("arr", a, i)
        if k in ("arrfut", "arr"):
            return ("arr", op[1], self._idx(op[2]))
        if k in ("regfut", "reg"):
            return ("reg", op[1])
        if k == "elt":
            a, i = self.loops[op[1]]["elt"]
            return ("arr", a, i)
        raise ValueError(op)

    def value(self, op: tuple) -> int:
        if op[0] == "lit":
            return op[1]
        if op[0] == "loopidx":
            return self.loops[op[1]]["i"]
        r = self.ref(op)
        v = self.arrays[r[1]][r[2]] if r[0] == "arr" else self.regs.get(r[1])
        if v is None:
            raise EvalUndefined(f"read of undefined {op}")
        return v

    def write(self, target: tuple, v: int) -> None:
        if target[0] == "new":
            name = target[1]
            if name not in self.futs:
                self.arrays["$" + name] = [None]
                self.futs[name] = ("$" + name, 0)
        r = self.ref(target)
        if r[0] == "arr":
            self.arrays[r[1]][r[2]] = v
        else:
            self.regs[r[1]] = v

    # -- statements --------------------------------------------------------
    def run(self, stmts: List[tuple]) -> None:
        for s in stmts:
            self.exec(s)

    def exec(self, s: tuple) -> None:
        self.steps += 1
        k = s[0]
        if k == "qubit":
            inst = self.next_inst
            self.next_inst += 1
            self.qubits[s[1]] = inst
            self.trace.append(("alloc", inst))
            self.trace.append(("init", inst))
        elif k == "gate":
            self.trace.append((s[1].lower(), self.qubits[s[2]]))
        elif k == "rot":
            self.trace.append(("rot_" + s[1], self.qubits[s[2]], norm_angle(s[3] * math.pi / 2 ** s[4])))
        elif k == "two":
            self.trace.append((s[1], self.qubits[s[2]], self.qubits[s[3]]))
        elif k == "measure":
            inst = self.qubits[s[1]]
            m = int(self.outcome(inst))
            self.nmeas += 1
            self.trace.append(("meas", inst, m))
            if not s[3]:
                self.trace.append(("free", inst))
                self.qubits[s[1]] = None
            self.write(s[2], m)
        elif k == "array":
            self.arrays[s[1]] = list(s[2])
        elif k == "if":
            cond, a, b = s[1], s[2], s[3]
            va = self.value(a)
            vb = self.value(b) if b is not None else 0
            t = {"eq": va == vb, "ne": va != vb, "lt": va < vb, "ge": va >= vb, "ez": va == 0, "nz": va != 0}[cond]
            self.stats["if-taken" if t else "if-not-taken"] = self.stats.get("if-taken" if t else "if-not-taken", 0) + 1
            if t:
                self.run(s[5])
        elif k == "loop":
            start, step = (s[4], s[5]) if len(s) > 4 else (0, 1)
            self.loops.append({"i": start, "elt": None})
            for j in range(s[1]):
                self.loops[-1]["i"] = start + j * step
                self.run(s[3])
            self.loops.pop()
        elif k in ("foreach", "enumerate"):
            self.loops.append({"i": 0, "elt": None})
            for i in range(len(self.arrays[s[1]])):
                self.loops[-1]["i"] = i
                self.loops[-1]["elt"] = (s[1], i)
                self.run(s[2])
            self.loops.pop()
        elif k == "loop_until":
            mx, body, f, v = s[1], s[2], s[3], s[4]
            cleanup = s[5] if len(s) > 5 else None
            self.loops.append({"i": 0, "elt": None})
            for it in range(mx):
                self.loops[-1]["i"] = it
                self.run(body)
                fv = self.value(("fut", f))
                if (fv < v) if self.loop_until_strict else (fv <= v):
                    if it < mx - 1:
                        self.stats["loop_until-early-exit"] = self.stats.get("loop_until-early-exit", 0) + 1
                    break
                if cleanup:
                    # the clean-up routine runs after every iteration that did not meet the exit condition
                    self.stats["loop_until-cleanup-ran"] = self.stats.get("loop_until-cleanup-ran", 0) + 1
                    self.run(cleanup)
            self.loops.pop()
        elif k == "add":
            target, other, mod = s[1], s[2], s[3]
            nv = self.value(target) + self.value(other)
            if mod is not None:
                nv = nv % mod
            r = self.ref(target)
            if r[0] == "arr":
                self.arrays[r[1]][r[2]] = nv
            else:
                self.regs[r[1]] = nv
        elif k == "aborted_loop":
            pass      # the body raised before it issued anything and the application caught it: no effect
        elif k == "flush":
            pass
        else:
            raise ValueError(f"evaluator: unknown statement {k}")


# ---------------------------------------------------------------------------
# generator
# ---------------------------------------------------------------------------

class HostGen:
    """Generates valid programs: every value read is definitely defined, qubits created
    in a body are consumed in it, outer qubits are never destroyed inside a body."""

    def __init__(self, ch: Choices, max_qubits: int = 5, avoid=frozenset(), allow: Optional[set] = None,
                 max_depth: int = 3, max_top: int = 12, xflush: Tuple[int, int] = (0, 1)):
        self.ch = ch
        self.maxq = max_qubits
        self.avoid = set(avoid)
        self.allow = allow
        self.max_depth = max_depth
        self.max_top = max_top
        self.nq = self.nf = self.na = self.nr = 0
        self.live: List[str] = []                 # live qubits (outer to inner)
        self.scope_q: List[List[str]] = [[]]      # qubits created per scope
        self.defined: List[set] = [set()]         # definitely-defined refs per scope: ("fut",f) ("regfut",r) ("arrfut",a,i)
        self.arrays: Dict[str, Dict[str, Any]] = {}  # name -> {"len": n, "full": bool}
        self.loops: List[Dict[str, Any]] = []     # enclosing loops: {"kind", "n", "form", "arr"}
        self.seg_regmeas = 0
        self.xflush = xflush
        self.n_xflush = 0
        self.kinds: set = set()
        self.flushed_futs: set = set()            # named futures that were defined at some flush (host has read them)
        self.modified_futs: set = set()           # named futures some `add` has targeted (value may exceed 1)
        self.index_futs: set = set()              # named futures used as the index of an array element

    def ok(self, kind: str) -> bool:
        if kind in self.avoid:
            return False
        return self.allow is None or kind in self.allow

    # -- helpers -----------------------------------------------------------
    def is_defined(self, ref: tuple) -> bool:
        return any(ref in s for s in self.defined)

    def all_defined(self) -> List[tuple]:
        out = []
        for s in self.defined:
            out.extend(sorted(s, key=repr))
        return out

    def define(self, ref: tuple) -> None:
        self.defined[-1].add(ref)

    def mark_flushed(self) -> None:
        for sc in self.defined:
            for r in sc:
                if r[0] == "fut":
                    self.flushed_futs.add(r[1])

    def in_loop(self) -> bool:
        return len(self.loops) > 0

    def depth(self) -> int:
        return len(self.defined) - 1

    def operand(self, allow_lit: bool = True) -> tuple:
        ch = self.ch
        cands = [r for r in self.all_defined()]
        # loop indices of callback-form loops and foreach elements are operands too
        for k, lp in enumerate(self.loops):
            if lp["kind"] == "loop" and lp["form"] == "cb":
                cands.append(("loopidx", k))
            if lp["kind"] in ("foreach", "enumerate"):
                cands.append(("elt", k))
        cands += self.loop_indexed_elements()
        cands += self.future_indexed_elements()
        if allow_lit and (not cands or ch.flag(1, 3, "oplit")):
            return ("lit", ch.draw(3, "litv"))
        if not cands:
            return ("lit", ch.draw(3, "litv"))
        return self._note_operand(cands[ch.draw(len(cands), "opnd")])

    def fut_operand(self) -> Optional[tuple]:
        cands = [r for r in self.all_defined()]
        for k, lp in enumerate(self.loops):
            if lp["kind"] in ("foreach", "enumerate"):
                cands.append(("elt", k))
            if lp["kind"] == "loop" and lp["form"] == "cb":
                cands.append(("loopidx", k))
        cands += self.loop_indexed_elements()
        cands += self.future_indexed_elements()
        if not cands:
            return None
        return self._note_operand(cands[self.ch.draw(len(cands), "fopnd")])

    def target(self) -> tuple:
        """Where a measurement result goes."""
        ch = self.ch
        opts = ["new"]
        arrs = sorted(self.arrays)
        if arrs:
            opts.append("arr")
            if any(lp["kind"] == "loop" and any(self.arrays[a]["len"] >= lp["n"] for a in arrs) for lp in self.loops):
                opts.append("arrloop")
        if self.ok("regfuture") and self.seg_regmeas < 6 and not (self.depth() > 0 and "regfuture-in-body" in self.avoid):
            opts.append("reg")
        if any(lp["kind"] in ("foreach", "enumerate") for lp in self.loops):
            opts.append("elt")
        o = opts[ch.draw(len(opts), "tgt")]
        if o == "new":
            f = f"f{self.nf}"
            self.nf += 1
            return ("new", f)
        if o == "arr":
            a = arrs[ch.draw(len(arrs), "tarr")]
            return ("arr", a, ch.draw(self.arrays[a]["len"], "tidx"))
        if o == "arrloop":
            pairs = [(a, k) for k, lp in enumerate(self.loops) if lp["kind"] == "loop"
                     for a in arrs if self.arrays[a]["len"] >= lp["n"]]
            a, k = pairs[ch.draw(len(pairs), "tal")]
            return ("arr", a, ("loopidx", k))
        if o == "reg":
            r = f"r{self.nr}"
            self.nr += 1
            self.seg_regmeas += 1
            return ("reg", r)
        ks = [k for k, lp in enumerate(self.loops) if lp["kind"] in ("foreach", "enumerate")]
        return ("elt", ks[ch.draw(len(ks), "telt")])

    def note_written(self, target: tuple) -> None:
        if target[0] == "new":
            self.define(("fut", target[1]))
        elif target[0] == "arr" and isinstance(target[2], int):
            self.define(("arrfut", target[1], target[2]))
        elif target[0] == "reg":
            self.define(("regfut", target[1]))

    # -- statement generators ---------------------------------------------
    def gates_on(self, q: str, n: int) -> List[tuple]:
        out = []
        ch = self.ch
        for _ in range(n):
            if ch.flag(1, 4, "rot") and self.ok("rot"):
                out.append(("rot", ch.pick(["x", "y", "z"]), q, ch.draw(32, "rn"), ch.draw(5, "rd")))
            elif len(self.live) >= 2 and ch.flag(1, 4, "two"):
                others = [x for x in self.live if x != q]
                out.append(("two", ch.pick(["cnot", "cphase"]), q, others[ch.draw(len(others), "q2")]))
            else:
                out.append(("gate", GATES[ch.draw(len(GATES), "g")], q))
        return out

    def qubit_block(self) -> List[tuple]:
        """allocate, a few gates, destructive measure -- self-contained (safe in any body)."""
        q = f"q{self.nq}"
        self.nq += 1
        self.live.append(q)
        out: List[tuple] = [("qubit", q)]
        out += self.gates_on(q, self.ch.draw(3, "ng"))
        t = self.target()
        out.append(("measure", q, t, False))
        self.live.remove(q)
        self.note_written(t)
        return out

    def loop_indexed_elements(self) -> List[tuple]:
        """elements of fully-defined arrays addressed by an enclosing counted loop's index"""
        out = []
        for k, lp in enumerate(self.loops):
            if lp["kind"] == "loop":
                for a in sorted(self.arrays):
                    d = self.arrays[a]
                    if d["full"] and d["len"] >= lp["n"]:
                        out.append(("arrfut", a, ("loopidx", k)))
        return out

    def future_indexed_elements(self) -> List[tuple]:
        """elements of fully-defined arrays (length >= 2) addressed by the value of a measurement future that no
        `add` has touched (so its value is 0 or 1 whenever the element is accessed)"""
        if not self.ok("future-indexed-element"):
            return []
        out = []
        for r in self.all_defined():
            if r[0] == "fut" and r[1] not in self.modified_futs:
                for a in sorted(self.arrays):
                    d = self.arrays[a]
                    if d["full"] and d["len"] >= 2:
                        out.append(("arrfut", a, ("futidx", r[1])))
        return out

    def _note_operand(self, r: tuple) -> tuple:
        if r[0] == "arrfut" and isinstance(r[2], tuple) and r[2][0] == "futidx":
            self.index_futs.add(r[2][1])      # from now on no `add` may target this future
            self.kinds.add("future-indexed-element")
        return r

    def body(self) -> List[tuple]:
        if self.ok("empty-body") and self.ch.flag(1, 12, "emptybody"):
            self.kinds.add("empty-body")
            return []
        self.defined.append(set())
        self.scope_q.append([])
        n = 1 + self.ch.draw(3, "nbody")
        out: List[tuple] = []
        for _ in range(n):
            out += self.stmt(top=False)
        if not out:
            if len(self.live) < self.maxq and self.ok("qblock"):
                out += self.qubit_block()
            elif self.live:
                out += self.gates_on(self.live[0], 1)
            else:
                out += [("array", self._new_array_name(), [0])]
        self.defined.pop()
        self.scope_q.pop()
        return out

    def stmt(self, top: bool) -> List[tuple]:
        ch = self.ch
        depth = self.depth()
        kinds = []
        w = []

        def add(kind, weight):
            if self.ok(kind):
                kinds.append(kind)
                w.append(weight)

        if len(self.live) < self.maxq:
            add("qblock", 5)
            if top:
                add("qubit", 3)
        if self.live:
            add("gate", 4)
            add("measure", 3)
        if top:
            add("array", 2)
            add("flush", 2)
        add("aborted-loop", 1)
        if depth < self.max_depth:
            if self.fut_operand() is not None:
                add("if", 5)
            add("loop", 3)
            if any(a["full"] for a in self.arrays.values()):
                add("foreach", 2)
                add("enumerate", 1)
            if len(self.live) < self.maxq:
                add("loop_until", 2)
        if [r for r in self.all_defined() if r[0] != "loopidx"] or any(lp["kind"] in ("foreach", "enumerate") for lp in self.loops):
            add("add", 3)
        if not kinds:
            return []
        kind = kinds[ch.weighted(w, "stmt")]
        self.kinds.add(kind)
        if kind == "aborted-loop":
            # a loop context whose body raises at once (before issuing anything); the application catches the error
            n_ab = 1 + ch.draw(3, "abn")
            forms = ["loop_ctx", "loop_body", "loop_until"]
            opnd = self.fut_operand() if self.ok("if") and ch.flag(1, 2, "abif") else None
            if opnd is not None:
                forms += ["if_cb", "if_ctx"]
            form = forms[ch.draw(len(forms), "abform")]
            # what leaves the body is an ordinary exception or one that is not an `Exception` (KeyboardInterrupt,
            # asyncio's CancelledError, ...) -- the session catches it either way and goes on
            return [("aborted_loop", n_ab, form, opnd if form.startswith("if") else None, ch.flag(1, 3, "abbase"))]
        if kind == "qblock":
            return self.qubit_block()
        if kind == "qubit":
            q = f"q{self.nq}"
            self.nq += 1
            self.live.append(q)
            self.scope_q[-1].append(q)
            return [("qubit", q)]
        if kind == "gate":
            q = self.live[ch.draw(len(self.live), "gq")]
            return self.gates_on(q, 1 + ch.draw(2, "ng"))
        if kind == "measure":
            q = self.live[ch.draw(len(self.live), "mq")]
            # outer qubits are never destroyed inside a body
            inplace = True if not top else ch.flag(1, 3, "inplace")
            t = self.target()
            if not inplace:
                self.live.remove(q)
            self.note_written(t)
            return [("measure", q, t, inplace)]
        if kind == "array":
            a = f"a{self.na}"
            self.na += 1
            n = 1 + ch.draw(4, "alen")
            form = ch.draw(3, "ainit")
            if form == 0:
                init = [ch.draw(3, "av") for _ in range(n)]
            elif form == 1:
                v = ch.draw(3, "av")
                init = [v] * n            # triggers the SDK's loop-initialisation path
            else:
                init = [ch.draw(3, "av") if ch.flag(1, 2, "adef") else None for _ in range(n)]
            self.arrays[a] = {"len": n, "full": all(x is not None for x in init)}
            for i, x in enumerate(init):
                if x is not None:
                    self.define(("arrfut", a, i))
            return [("array", a, init)]
        if kind == "flush":
            return self.flush_stmt()
        if kind == "if":
            cond = CONDS[ch.draw(6, "cond")]
            form = "ctx" if ch.flag(1, 2, "ifform") else "cb"
            a = self.fut_operand()
            assert a is not None
            if form == "ctx" and a[0] == "loopidx":
                form = "cb"
            if cond in ("ez", "nz"):
                b = None
                if "if-unary-on-future" in self.avoid and a[0] in ("fut", "arrfut", "elt"):
                    cond = "eq" if cond == "ez" else "ne"
                    b = ("lit", 0)
            else:
                b = self.operand()
            self.kinds.add("if_" + cond + "_" + form)
            return [("if", cond, a, b, form, self.body())]
        if kind == "loop":
            n = ch.weighted([1, 4, 4, 2, 1], "ln")
            form = "ctx" if ch.flag(1, 2, "lform") else "cb"
            start, step = 0, 1
            if self.ok("loop-start-step") and ch.flag(1, 3, "lss"):
                start, step = ch.draw(3, "lstart"), 1 + ch.draw(2, "lstep")
                self.kinds.add("loop-start-step")
                if ch.flag(1, 3, "countdown"):
                    # count-down loop: start high, negative step, stop = start + n * step >= 0
                    step = -step
                    start = n * (-step) + ch.draw(2, "lstart2")
                    self.kinds.add("loop-count-down")
            # "n" = one more than the largest index value the body sees (what an indexed array must hold)
            top = (start + max(n - 1, 0) * step + 1) if step > 0 else start + 1
            # the caller may name the register that holds the counter (one per nesting level, from the top of the pool)
            explicit = None
            if self.ok("loop-explicit-register") and ch.flag(1, 6, "lreg"):
                explicit = f"R{15 - sum(1 for lp in self.loops if lp['kind'] == 'loop')}"
                self.kinds.add("loop-explicit-register")
            self.loops.append({"kind": "loop", "n": top, "form": form})
            b = self.body()
            self.loops.pop()
            self.kinds.add("loop_" + form)
            if explicit is not None:
                return [("loop", n, form, b, start, step, explicit)]
            return [("loop", n, form, b, start, step)]
        if kind in ("foreach", "enumerate"):
            arrs = sorted(a for a, d in self.arrays.items() if d["full"])
            a = arrs[ch.draw(len(arrs), "fa")]
            self.loops.append({"kind": kind, "n": self.arrays[a]["len"], "form": "ctx", "arr": a})
            b = self.body()
            self.loops.pop()
            return [(kind, a, b)]
        if kind == "loop_until":
            mx = 1 + ch.draw(4, "lumax")
            self.loops.append({"kind": "loop_until", "n": mx, "form": "ctx"})
            self.defined.append(set())
            self.scope_q.append([])
            q = f"q{self.nq}"
            self.nq += 1
            f = f"f{self.nf}"
            self.nf += 1
            self.live.append(q)
            b: List[tuple] = [("qubit", q)] + self.gates_on(q, ch.draw(2, "ng")) + [("measure", q, ("new", f), False)]
            self.live.remove(q)
            self.define(("fut", f))
            if ch.flag(1, 3, "luextra"):
                b += self.stmt(top=False)
            cleanup: List[tuple] = []
            if self.ok("loop-until-cleanup") and ch.flag(1, 3, "lucleanup"):
                for _ in range(1 + ch.draw(2, "ncleanup")):
                    cleanup += self.stmt(top=False)
                if cleanup:
                    self.kinds.add("loop-until-cleanup")
            self.defined.pop()
            self.scope_q.pop()
            self.loops.pop()
            v = ch.draw(2, "luv")
            return [("loop_until", mx, b, f, v, cleanup)] if cleanup else [("loop_until", mx, b, f, v)]
        if kind == "add":
            cands = [r for r in self.all_defined()]
            for k, lp in enumerate(self.loops):
                if lp["kind"] in ("foreach", "enumerate"):
                    cands.append(("elt", k))
            cands += self.loop_indexed_elements()
            cands += self.future_indexed_elements()
            cands = [r for r in cands if not (r[0] == "fut" and r[1] in self.index_futs)]
            if not cands:
                return []
            if "rewrite-after-read" in self.avoid:
                # recorded finding: a Future the host has already read keeps its cached value
                cands = [r for r in cands if not (r[0] == "fut" and r[1] in self.flushed_futs)]
                if not cands:
                    return []
            t = self._note_operand(cands[ch.draw(len(cands), "addt")])
            if t[0] == "fut":
                self.modified_futs.add(t[1])
            other = self.operand()
            if other[0] == "loopidx":
                other = ("lit", 1)
            mod = None if ch.flag(1, 2, "mod") else 2 + ch.draw(3, "modv")
            return [("add", t, other, mod)]
        return []

    def _new_array_name(self) -> str:
        a = f"a{self.na}"
        self.na += 1
        self.arrays[a] = {"len": 1, "full": True}
        return a

    def flush_stmt(self) -> List[tuple]:
        # register futures do not survive a flush as operands (their M register may be reused)
        for s in self.defined:
            for r in [r for r in s if r[0] == "regfut"]:
                s.discard(r)
        self.seg_regmeas = 0
        self.mark_flushed()
        return [("flush",)]

    def program(self) -> List[tuple]:
        n = 2 + self.ch.draw(self.max_top - 1, "ntop")
        out: List[tuple] = []
        for _ in range(n):
            st = self.stmt(top=True)
            out += st
            # the scheduler may place a flush after any top-level statement
            if st and st[-1][0] != "flush" and self.xflush[0] and self.ch.flag(self.xflush[0], self.xflush[1], "xflush"):
                out += self.flush_stmt()
                self.n_xflush += 1
        # consume what is left so that the connection can close cleanly
        for q in list(self.live):
            t = self.target()
            out.append(("measure", q, t, False))
            self.note_written(t)
            self.live.remove(q)
        out.append(("flush",))
        return out
