"""Controller rig: one real QNodeController + Executor per node, driven by real
serialised host messages, stepped one instruction at a time by the scheduler."""
from __future__ import annotations

from typing import Any, Callable, Dict, Generator, List, Optional, Tuple

from netqasm.backend.messages import (
    InitNewAppMessage,
    OpenEPRSocketMessage,
    StopAppMessage,
    SubroutineMessage,
    deserialize_host_msg,
)
from netqasm.lang.encoding import RegisterName
from netqasm.lang.operand import Address, ArrayEntry, ArraySlice, Immediate, Register
from netqasm.lang.subroutine import Subroutine

from sim.stubs.backend import NodeEnv, SimNetworkStack, SimQNodeController, flavour_of

REGNAME = {"R": RegisterName.R, "C": RegisterName.C, "Q": RegisterName.Q, "M": RegisterName.M}
REGNAME_INV = {v: k for k, v in REGNAME.items()}


def R(reg: Tuple[str, int]) -> Register:
    return Register(REGNAME[reg[0]], reg[1])


def to_instr(t: tuple, flavour: Any):
    """Tuple form (see sim/models/netqasm_ref.py) -> NetQASM instruction object."""
    op = t[0]
    cls = flavour.get_instr_by_name(op)
    if op == "set":
        ops = [R(t[1]), Immediate(t[2])]
    elif op in ("add", "sub"):
        ops = [R(t[1]), R(t[2]), R(t[3])]
    elif op in ("addm", "subm"):
        ops = [R(t[1]), R(t[2]), R(t[3]), R(t[4])]
    elif op == "array":
        ops = [R(t[1]), Address(t[2])]
    elif op == "lea":
        ops = [R(t[1]), Address(t[2])]
    elif op in ("store", "load"):
        ops = [R(t[1]), ArrayEntry(Address(t[2]), R(t[3]))]
    elif op in ("undef", "wait_single"):
        ops = [ArrayEntry(Address(t[1]), R(t[2]))]
    elif op in ("wait_all", "wait_any"):
        ops = [ArraySlice(Address(t[1]), R(t[2]), R(t[3]))]
    elif op in ("beq", "bne", "blt", "bge"):
        ops = [R(t[1]), R(t[2]), Immediate(t[3])]
    elif op in ("bez", "bnz"):
        ops = [R(t[1]), Immediate(t[2])]
    elif op == "jmp":
        ops = [Immediate(t[1])]
    elif op == "ret_reg":
        ops = [R(t[1])]
    elif op == "ret_arr":
        ops = [Address(t[1])]
    elif op in ("qalloc", "qfree", "init", "x", "y", "z", "h", "k", "s", "t"):
        ops = [R(t[1])]
    elif op in ("rot_x", "rot_y", "rot_z"):
        ops = [R(t[1]), Immediate(t[2]), Immediate(t[3])]
    elif op in ("cnot", "cphase", "mov", "meas"):
        ops = [R(t[1]), R(t[2])]
    elif op in ("crot_x", "crot_y"):
        ops = [R(t[1]), R(t[2]), Immediate(t[3]), Immediate(t[4])]
    elif op == "create_epr":
        ops = [R(t[1]), R(t[2]), R(t[3]), R(t[4]), R(t[5])]
    elif op == "recv_epr":
        ops = [R(t[1]), R(t[2]), R(t[3]), R(t[4])]
    else:
        raise ValueError(f"to_instr: unknown op {op}")
    return cls.from_operands(ops)


def subroutine_bytes(prog: List[tuple], app_id: int, flavour: Any) -> bytes:
    sub = Subroutine(instructions=[to_instr(t, flavour) for t in prog], app_id=app_id)
    return bytes(SubroutineMessage(subroutine=sub))


class ControllerNode:
    """A simulated node: real controller + executor, stub network stack and memory."""

    def __init__(self, name: str, node_id: int, qmem: Any, clock: Callable[[], int],
                 flavour: str = "vanilla", link: Any = None, with_stack: bool = True):
        self.env = NodeEnv(name, node_id, qmem, clock)
        self.flavour_name = flavour
        self.flavour = flavour_of(flavour)
        self.ctrl = SimQNodeController(name, flavour=self.flavour, env=self.env)
        self.ex = self.ctrl.executor
        self.stack: Optional[SimNetworkStack] = None
        if with_stack:
            self.stack = SimNetworkStack(node_id, link)
            self.ctrl.network_stack = self.stack
        self.next_msg_id = 0
        self.pre_delivery: List[Callable] = []
        self.post_delivery: List[Callable] = []
        if link is not None:
            link.attach(self)

    # link layer -> executor (the only way responses enter the controller)
    def on_delivery(self, resp: Any, qk: Any, rec: Any) -> None:
        for f in self.pre_delivery:
            f(self, resp, qk, rec)
        self.ex._handle_epr_response(resp)
        for f in self.post_delivery:
            f(self, resp, qk, rec)

    def retry_task(self, done: Callable[[], bool], ch: Any, max_delay: int = 500) -> Generator:
        """Retry timer for responses the executor could not place yet.  How soon it fires is a per-run property of
        the simulated controller: eager (at its next turn) or lazy (it lets up to `lazy` of its turns pass first), so
        that a subroutine can run well ahead of a deferred response."""
        lazy = ch.pick([0, 0, 0, 8, 60])
        self.env.retry_lazy = lazy
        while True:
            if done():
                return
            yield ("block", lambda: (self.env.retry_armed and bool(self.ex._pending_epr_responses)) or done())
            if done():
                return
            if lazy:
                for _ in range(ch.draw(lazy + 1, "retry-lazy")):
                    yield ("sleep", 1)
                    if done():
                        return
            if self.env.retry_armed and self.ex._pending_epr_responses:
                self.ex.retry_pending()
                yield ("sleep", 1 + ch.draw(max_delay, "retry-delay"))

    # real message path: bytes -> deserialize_host_msg -> handle_netqasm_message
    def handle_raw(self, raw: bytes) -> Generator:
        msg = deserialize_host_msg(raw)
        mid = self.next_msg_id
        self.next_msg_id += 1
        return self.ctrl.handle_netqasm_message(msg_id=mid, msg=msg)

    def run_raw_now(self, raw: bytes) -> None:
        for _ in self.handle_raw(raw):
            pass

    def init_app(self, app_id: int, max_qubits: int) -> None:
        self.run_raw_now(bytes(InitNewAppMessage(app_id=app_id, max_qubits=max_qubits)))

    def stop_app_gen(self, app_id: int) -> Generator:
        return self.handle_raw(bytes(StopAppMessage(app_id=app_id)))

    def open_socket(self, app_id: int, sock: int, remote: int, remote_sock: int) -> None:
        self.run_raw_now(bytes(OpenEPRSocketMessage(app_id=app_id, epr_socket_id=sock,
                                                    remote_node_id=remote, remote_epr_socket_id=remote_sock)))

    # ---- observation of real state (read-only) ---------------------------
    def regs(self, app_id: int) -> Dict[Tuple[str, int], int]:
        out = {}
        for rn, grp in self.ex._registers[app_id].items():
            for i, v in grp._register.items():
                if v is not None:
                    out[(REGNAME_INV[rn], i)] = v
        return out

    def arrays(self, app_id: int) -> Dict[int, List[Optional[int]]]:
        return self.ex._app_arrays[app_id]._arrays

    def shm_regs(self, app_id: int) -> Dict[Tuple[str, int], int]:
        out = {}
        shm = self.ex._shared_memories[app_id]
        for rn, grp in shm._registers.items():
            for i, v in grp._register.items():
                if v is not None:
                    out[(REGNAME_INV[rn], i)] = v
        return out

    def shm_arrays(self, app_id: int) -> Dict[int, List[Optional[int]]]:
        return self.ex._shared_memories[app_id]._arrays._arrays

    def unit_module(self, app_id: int) -> List[Optional[int]]:
        return self.ex._qubit_unit_modules[app_id]

    def allocated(self, app_id: int) -> List[int]:
        return [i for i, p in enumerate(self.ex._qubit_unit_modules[app_id]) if p is not None]

    def app_snapshot(self, app_id: int) -> Any:
        if app_id not in self.ex._registers:
            return None
        return (
            tuple(sorted(self.regs(app_id).items())),
            tuple(sorted((a, tuple(v)) for a, v in self.arrays(app_id).items())),
            tuple(sorted(self.shm_regs(app_id).items())),
            tuple(sorted((a, tuple(v)) for a, v in self.shm_arrays(app_id).items())),
            tuple(self.ex._qubit_unit_modules.get(app_id, ())),    # (gone first while the application is being stopped)
            self.host_sees_shared_memory(app_id),
        )

    def host_sees_shared_memory(self, app_id: int) -> bool:
        """What the application's host gets when it looks its shared memory up (by node name and app id) is the very
        object the executor writes into."""
        from netqasm.sdk.shared_memory import SharedMemoryManager
        return SharedMemoryManager.get_shared_memory(self.env.name, key=app_id) is self.ex._shared_memories.get(app_id)


class LivenessWatch:
    """Bounded liveness without a total-step budget: a run is stuck when nothing *progresses* (no instruction
    completes on any controller, no response is delivered, the host issues nothing) for `window` consecutive
    scheduler steps -- only wait polls and retry timers fire -- and it does not terminate when it is still
    progressing after `hard` steps.  A long but healthy run (many re-tries, slow link) trips neither."""

    def __init__(self, sched: Any, nodes: List[Any], link: Any = None, window: int = 6000, hard: int = 400000):
        self.sched = sched
        self.nodes = nodes
        self.link = link
        self.window = window
        self.hard = hard
        self.extra = 0            # bumped by the harness for host-side progress
        self._last_val = -1
        self._last_step = 0

    def verdict(self) -> Optional[str]:
        val = sum(n.env.instr_done for n in self.nodes) + (len(self.link.delivered) if self.link is not None else 0) + self.extra
        if val != self._last_val:
            self._last_val = val
            self._last_step = self.sched.steps
        if self.sched.steps - self._last_step > self.window:
            return "no-progress"
        if self.sched.steps > self.hard:
            return "does-not-terminate"
        return None
