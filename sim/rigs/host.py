"""Host rig: real SDK (connection, builder, futures, qubits) in front of the controller
rig.  `SdkDriver` issues the real SDK calls for a host-program AST (see
sim/models/host_ref.py); one top-level statement is one SDK-side event."""
from __future__ import annotations

from typing import Any, Dict, Generator, List, Optional, Tuple

from netqasm.lang.operand import Register
from netqasm.sdk.constraint import ValueAtMostConstraint
from netqasm.sdk.futures import Array, Future, RegFuture
from netqasm.sdk.qubit import Qubit

from sim.stubs.connection import SimConnection


class SdkDriver:
    def __init__(self, conn: SimConnection):
        self.conn = conn
        self.qubits: Dict[str, Qubit] = {}
        self.arrays: Dict[str, Array] = {}
        self.futs: Dict[str, Future] = {}
        self.regs: Dict[str, RegFuture] = {}
        self.loops: List[Dict[str, Any]] = []   # frames: {"i": Register|RegFuture, "elt": Future|None}
        self.flush_block: Any = lambda: True    # decides per flush whether it is issued as flush(block=True|False)

    # -- operands ----------------------------------------------------------
    def _idx(self, idx: Any) -> Any:
        if isinstance(idx, int):
            return idx
        if idx[0] == "loopidx":
            return self.loops[idx[1]]["i"]
        if idx[0] == "futidx":
            return self.futs[idx[1]]
        raise ValueError(idx)

    def cvalue(self, op: tuple) -> Any:
        k = op[0]
        if k == "lit":
            return op[1]
        if k in ("fut", "new"):
            return self.futs[op[1]]
        if k in ("arrfut", "arr"):
            return self.arrays[op[1]].get_future_index(self._idx(op[2]))
        if k in ("regfut", "reg"):
            return self.regs[op[1]]
        if k == "loopidx":
            return self.loops[op[1]]["i"]
        if k == "elt":
            return self.loops[op[1]]["elt"]
        raise ValueError(op)

    # -- statements --------------------------------------------------------
    def run(self, stmts: List[tuple]) -> None:
        for s in stmts:
            self.exec(s)

    def exec(self, s: tuple) -> None:
        conn = self.conn
        k = s[0]
        if k == "qubit":
            self.qubits[s[1]] = Qubit(conn)
        elif k == "gate":
            getattr(self.qubits[s[2]], s[1])()
        elif k == "rot":
            getattr(self.qubits[s[2]], "rot_" + s[1].upper())(n=s[3], d=s[4])
        elif k == "two":
            getattr(self.qubits[s[2]], s[1])(self.qubits[s[3]])
        elif k == "measure":
            q = self.qubits[s[1]]
            t = s[2]
            if t[0] == "new":
                f = q.measure(inplace=s[3])
                self.futs[t[1]] = f
            elif t[0] == "reg":
                r = q.measure(inplace=s[3], store_array=False)
                self.regs[t[1]] = r
            else:
                q.measure(future=self.cvalue(t), inplace=s[3])
        elif k == "array":
            self.arrays[s[1]] = conn.new_array(len(s[2]), init_values=list(s[2]))
        elif k == "if":
            cond, a, b, form, body = s[1], s[2], s[3], s[4], s[5]
            va = self.cvalue(a)
            vb = self.cvalue(b) if b is not None else None
            if form == "ctx":
                ctx = getattr(va, "if_" + cond)(vb) if b is not None else getattr(va, "if_" + cond)()
                with ctx:
                    self.run(body)
            else:
                fn = getattr(conn, "if_" + cond)
                if b is not None:
                    fn(va, vb, lambda c: self.run(body))
                else:
                    fn(va, lambda c: self.run(body))
        elif k == "loop":
            n, form, body = s[1], s[2], s[3]
            start, step = (s[4], s[5]) if len(s) > 4 else (0, 1)
            lreg = s[6] if len(s) > 6 else None
            stop = start + n * step
            if form == "ctx":
                with conn.loop(stop, start, step, loop_register=lreg) as i:
                    self.loops.append({"i": i, "elt": None})
                    try:
                        self.run(body)
                    finally:
                        self.loops.pop()
            else:
                def fn(c, i):
                    self.loops.append({"i": i, "elt": None})
                    try:
                        self.run(body)
                    finally:
                        self.loops.pop()
                conn.loop_body(fn, stop=stop, start=start, step=step, loop_register=lreg)
        elif k == "foreach":
            with self.arrays[s[1]].foreach() as v:
                self.loops.append({"i": None, "elt": v})
                try:
                    self.run(s[2])
                finally:
                    self.loops.pop()
        elif k == "enumerate":
            with self.arrays[s[1]].enumerate() as (i, v):
                self.loops.append({"i": i, "elt": v})
                try:
                    self.run(s[2])
                finally:
                    self.loops.pop()
        elif k == "loop_until":
            mx, body, f, v = s[1], s[2], s[3], s[4]
            cleanup = s[5] if len(s) > 5 else None
            frame: Dict[str, Any] = {"i": None, "elt": None}
            self.loops.append(frame)      # the frame stays until the context has closed: the clean-up routine is built then
            try:
                with conn.loop_until(mx) as loop:
                    frame["i"] = loop.loop_register
                    self.run(body)
                    loop.set_exit_condition(ValueAtMostConstraint(self.futs[f], v))
                    if cleanup:
                        loop.set_cleanup_code(lambda c: self.run(cleanup))
            finally:
                self.loops.pop()
        elif k == "add":
            target, other, mod = s[1], s[2], s[3]
            t = self.cvalue(target)
            o = self.cvalue(other)
            t.add(o, mod=mod)     # a register future is passed as it is (add() accepts any BaseFuture)
        elif k == "aborted_loop":
            class _Abort(BaseException if (len(s) > 4 and s[4]) else Exception):  # type: ignore[misc]
                pass
            form = s[2] if len(s) > 2 else "loop_ctx"

            def _raises(*_a):
                raise _Abort()
            try:
                if form == "loop_ctx":
                    with conn.loop(s[1]):
                        raise _Abort()
                elif form == "loop_body":
                    conn.loop_body(_raises, s[1])
                elif form == "loop_until":
                    with conn.loop_until(s[1]):
                        raise _Abort()      # (before an exit condition was set)
                elif form == "if_cb":
                    conn.if_eq(self.cvalue(s[3]), 0, _raises)
                else:
                    with self.cvalue(s[3]).if_eq(0):
                        raise _Abort()
            except _Abort:
                pass
        elif k == "flush":
            conn.flush(block=bool(self.flush_block()))
        else:
            raise ValueError(f"driver: unknown statement {k}")
