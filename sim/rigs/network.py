"""Network rig: 1-3 simulated nodes (real host SDK + real controller each) over one
state-vector universe and the fake link layer."""
from __future__ import annotations

import math
from typing import Any, Callable, Dict, Hashable, List, Optional, Tuple

import numpy as np

from netqasm.qlink_compat import Basis, RequestType
from sim.stubs.link import LinkBell as BellState

from sim.core import Choices, Sched, Trace
from sim.rigs.controller import ControllerNode
from sim.stubs.link import FakeLink
from sim.stubs.qmem_sv import BELL, SVQMem, Universe, rot


class QuantumLink:
    """The fake link's quantum side: prepares the halves of each pair in the universe."""

    def __init__(self, uni: Universe, link: FakeLink):
        self.uni = uni
        self.link = link
        self.pairs: List[Dict[str, Any]] = []
        self.force_outcomes: Optional[Callable[[dict, int], Tuple[int, int]]] = None

    def slot(self, node: Optional[int], phys: Optional[int], seq: int, side: str) -> Hashable:
        if node is None or phys is None:
            return ("ghost", seq, side)
        return (node, phys)

    def make_pair(self, c: Optional[int], pc: Optional[int], r: Optional[int], pr: Optional[int], bell: BellState) -> None:
        seq = len(self.pairs)
        kc = self.slot(c, pc, seq, "c")
        kr = self.slot(r, pr, seq, "r")
        # qubit order in the Bell vector: (creator half, receiver half)
        self.uni.add_pair(kc, kr, BELL[bell.name])
        self.pairs.append({"kc": kc, "kr": kr, "bell": bell})
        if c is not None and pc is not None:
            self.link.nodes[c].env.qmem.link_deposit(pc)
        if r is not None and pr is not None:
            self.link.nodes[r].env.qmem.link_deposit(pr)

    def measure_pair(self, job: dict, k: int, bell: BellState, link: FakeLink, rec: dict):
        """M / R type: the link measures (M: both halves, R: the creator's half) in the requested bases."""
        req = job["request"]
        seq = len(self.pairs)
        c, r = job["creator"], job["receiver"]
        kc, kr = ("m", seq, "c"), ("m", seq, "r")
        self.uni.add_pair(kc, kr, BELL[bell.name])
        rl = (getattr(req, "rotation_X_local1", 0) or 0, getattr(req, "rotation_Y_local", 0) or 0,
              getattr(req, "rotation_X_local2", 0) or 0)
        rr = (getattr(req, "rotation_X_remote1", 0) or 0, getattr(req, "rotation_Y_remote", 0) or 0,
              getattr(req, "rotation_X_remote2", 0) or 0)

        def rotate(key, r3):
            self.uni.apply1(key, rot("x", r3[0] * math.pi / 16))
            self.uni.apply1(key, rot("y", r3[1] * math.pi / 16))
            self.uni.apply1(key, rot("x", r3[2] * math.pi / 16))

        rotate(kc, rl)
        forced = self.force_outcomes(job, k) if self.force_outcomes is not None else None
        pr = None
        if job["type"] == RequestType.M:
            rotate(kr, rr)
            p = self.joint_probs(kc, kr)
            if forced is not None:
                oc, orr = forced
                self.uni.remove(kc)
                self.uni.remove(kr)
            else:
                oc = self.uni.measure(kc)
                orr = self.uni.measure(kr)
                self.uni.remove(kc)
                self.uni.remove(kr)
            self.pairs.append({"kc": None, "kr": None, "bell": bell, "probs": p, "out": (oc, orr)})
        else:
            oc = self.uni.measure(kc)
            self.uni.remove(kc)
            orr = 0
            if r in link.nodes:
                pr = link.new_phys(r)
                # hand the receiver's half over to its memory
                a = self.uni.slots.index(kr)
                self.uni.slots[a] = (r, pr)
                link.nodes[r].env.qmem.link_deposit(pr)
            self.pairs.append({"kc": None, "kr": (r, pr), "bell": bell, "out": (oc, None)})
        return oc, Basis.Z, orr, Basis.Z, pr

    def joint_probs(self, k1: Hashable, k2: Hashable) -> Dict[Tuple[int, int], float]:
        rho = self.uni.reduced([k1, k2])
        return {(a, b): float(np.real(rho[2 * a + b, 2 * a + b])) for a in (0, 1) for b in (0, 1)}


class Network:
    def __init__(self, ch: Choices, sched: Sched, trace: Trace, n_nodes: int, flavours: List[str],
                 legacy: bool = False, calm: bool = False, distinct_fields: bool = False, bell_choices: int = 4):
        self.ch = ch
        self.uni = Universe(lambda: ch.u01("collapse"))
        self.link = FakeLink(ch, sched, trace, legacy=legacy, max_gen_delay=0 if calm else 300,
                             max_deliver_delay=0 if calm else 300, bell_choices=bell_choices,
                             distinct_fields=distinct_fields)
        # injected fault kind (a fifth of the stormy runs): the first pair of a create request may be answered from inside put()
        self.link.eager = (not calm) and ch.flag(1, 5, "eager-link")
        self.qlink = QuantumLink(self.uni, self.link)
        self.link.quantum = self.qlink
        self.nodes: List[ControllerNode] = []
        for i in range(n_nodes):
            qm = SVQMem(self.uni, i)
            self.nodes.append(ControllerNode(f"n{i}", i, qm, lambda: sched.now, flavour=flavours[i], link=self.link))

    def slot_of(self, node: ControllerNode, app_id: int, virtual_id: int) -> Optional[Hashable]:
        um = node.unit_module(app_id)
        if virtual_id >= len(um) or um[virtual_id] is None:
            return None
        return (node.env.node_id, um[virtual_id])

    def errors(self) -> List[str]:
        out = list(self.uni.errors)
        for n in self.nodes:
            out += n.env.qmem.errors
        return out


def random_state(ch: Choices) -> np.ndarray:
    """A single-qubit pure state on a 12x16 grid of the Bloch sphere (drawn from the choice stream)."""
    th = math.pi * ch.draw(13, "theta") / 12
    ph = 2 * math.pi * ch.draw(16, "phi") / 16
    return np.array([math.cos(th / 2), cmath_exp(ph) * math.sin(th / 2)], dtype=complex)


def cmath_exp(ph: float) -> complex:
    return complex(math.cos(ph), math.sin(ph))
