"""Trace quantum memory: records what the controller asked the hardware to do and
returns scripted measurement outcomes.  No quantum state."""
from __future__ import annotations

import math
from typing import Any, Callable, Dict, List, Optional, Set


def norm_angle(angle: float) -> int:
    """Angle as an integer number of 2*pi/2^16 units in [0, 2^16)."""
    u = round(angle / (2 * math.pi) * 65536)
    return u % 65536


class TraceQMem:
    def __init__(self, outcome: Callable[[int], int]):
        self.outcome = outcome
        self.log: List[tuple] = []
        self.live: Set[int] = set()
        self.inst: Dict[int, int] = {}  # physical -> instance number
        self.next_inst = 0
        self.errors: List[str] = []
        self.link_pending: Set[int] = set()

    def _q(self, phys: int) -> int:
        if phys not in self.live:
            self.errors.append(f"operation on unreserved physical qubit {phys}")
            return -1
        return self.inst[phys]

    def reserve(self, phys: int) -> None:
        if phys in self.live:
            if phys in self.link_pending:
                self.link_pending.discard(phys)  # controller maps a half the link deposited
            else:
                self.errors.append(f"physical qubit {phys} reserved twice")
            return
        self.live.add(phys)
        self.inst[phys] = self.next_inst
        self.next_inst += 1
        self.log.append(("alloc", self.inst[phys]))

    def link_deposit(self, phys: int) -> None:
        """The link layer placed an entangled half at `phys` before the controller maps it."""
        if phys in self.live:
            self.errors.append(f"link deposited a half on live physical qubit {phys}")
            return
        self.live.add(phys)
        self.link_pending.add(phys)
        self.inst[phys] = self.next_inst
        self.next_inst += 1
        self.log.append(("epr", self.inst[phys]))

    def release(self, phys: int) -> None:
        q = self._q(phys)
        self.log.append(("free", q))
        self.live.discard(phys)

    def init(self, phys: int) -> None:
        self.log.append(("init", self._q(phys)))

    def gate1(self, name: str, phys: int) -> None:
        self.log.append((name, self._q(phys)))

    def rot(self, name: str, phys: int, angle: float) -> None:
        self.log.append((name, self._q(phys), norm_angle(angle)))

    def crot(self, name: str, p1: int, p2: int, angle: float) -> None:
        self.log.append((name, self._q(p1), self._q(p2), norm_angle(angle)))

    def gate2(self, name: str, p1: int, p2: int) -> None:
        self.log.append((name, self._q(p1), self._q(p2)))

    def meas(self, phys: int) -> int:
        q = self._q(phys)
        m = int(self.outcome(q))
        self.log.append(("meas", q, m))
        return m
