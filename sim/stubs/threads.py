"""Deterministic scheduler for real threads (baton passing).

Each simulated thread is a real `threading.Thread`, but it runs only while it holds the
scheduler's baton.  Pre-emption points are `sys.settrace` line events in the files under
test; at each one the seeded choice stream decides whether another thread takes over.
`sleep`, `timer` and `Lock` of the modules under test are replaced by virtual-time /
scheduler-owned versions, so nothing reads a real clock and no thread ever blocks in the
OS while holding the baton.
"""
from __future__ import annotations

import sys
import threading
from typing import Tuple, Any, Callable, Dict, List, Optional

from sim.core import Choices, Trace


class Deadlock(Exception):
    pass


class StepCapHit(Exception):
    pass


class SimThread:
    def __init__(self, sched: "ThreadSched", name: str, fn: Callable[[], None]):
        self.sched = sched
        self.name = name
        self.fn = fn
        self.go = threading.Event()
        self.state = "ready"          # ready | sleeping | blocked | done
        self.wake = 0
        self.blocked_on: Any = None
        self.error: Optional[BaseException] = None
        self.points = 0
        self.sleeps = 0               # completed virtual sleeps
        self.last_wake_point = 0      # scheduler point at which the last of them returned
        self.freeze_in: Optional[int] = None   # freeze after this many more of its own lines
        self.thread = threading.Thread(target=self._run, name=name, daemon=True)

    def _run(self) -> None:
        self.go.wait()
        self.go.clear()
        sys.settrace(self._gtrace)
        try:
            if not self.sched.aborting:
                self.fn()
        except BaseException as e:  # noqa: BLE001 -- recorded, judged by the rig
            self.error = e
        finally:
            sys.settrace(None)
            self.state = "done"
            self.sched._to_main()

    def _gtrace(self, frame, event, arg):
        if frame.f_code.co_filename in self.sched.files:
            return self._ltrace
        return None

    def _ltrace(self, frame, event, arg):
        if event == "line":
            self.sched.preempt(self)
        return self._ltrace


class SimLock:
    """threading.Lock replacement: contention blocks the thread inside the scheduler."""

    def __init__(self, sched: "ThreadSched"):
        self.sched = sched
        self.owner: Optional[SimThread] = None
        self.contended = 0

    def acquire(self, blocking: bool = True, timeout: float = -1) -> bool:
        th = self.sched.current
        if th is None or threading.current_thread() is not th.thread:
            return True   # set-up / finaliser code outside the schedule: no contention possible
        self.sched.preempt(th)
        while self.owner is not None:
            if not blocking:
                return False
            self.contended += 1
            self.sched.counters["lock-contended"] = self.sched.counters.get("lock-contended", 0) + 1
            th.state = "blocked"
            th.blocked_on = self
            self.sched._yield(th)
        self.owner = th
        return True

    def release(self) -> None:
        self.owner = None

    def locked(self) -> bool:
        return self.owner is not None

    def __enter__(self):
        self.acquire()
        return self

    def __exit__(self, *a):
        self.release()
        return False


class ThreadSched:
    def __init__(self, ch: Choices, trace: Trace, files: List[str], switch_num: int = 1, switch_den: int = 4,
                 max_points: int = 20000):
        self.ch = ch
        self.trace = trace
        self.files = set(files)
        self.switch = (switch_num, switch_den)
        self.max_points = max_points      # quiet window: points / scheduling decisions without any progress() call
        self.hard_points = 10 * max_points  # absolute bound (a run that keeps progressing for ever)
        self._prog_point = 0
        self._prog_iter = 0
        self.threads: List[SimThread] = []
        self.current: Optional[SimThread] = None
        self.main_evt = threading.Event()
        self.now_ns = 0
        self.points = 0
        self.iters = 0
        self.switches = 0
        self.counters: Dict[str, int] = {}
        self.fp: List[str] = []
        self.aborting = False
        self.stall: Dict[str, int] = {}   # thread name -> not schedulable before this many scheduling decisions (stalled-thread fault)
        self.stall_at: Dict[str, Tuple[int, int]] = {}   # thread name -> (after this many of its own lines, for this many decisions)
        self.freeze_after_sleep: Dict[str, Tuple[int, int, int]] = {}   # thread -> (k-th sleep, lines after waking, decisions)

    def progress(self) -> None:
        """Called by the harness whenever an operation of the workload completes: the step caps are windows of
        *no progress*, not budgets for the whole run (a busy-polling receive burns steps while it legitimately waits)."""
        self._prog_point = self.points
        self._prog_iter = self.iters

    # ---- API for the code under test (patched in) -----------------------------
    def timer(self) -> float:
        # every reading lets a microsecond pass, so sleep-free polling loops see time move
        self.now_ns += 1000
        return self.now_ns / 1e9

    def _holder(self) -> Optional[SimThread]:
        """The thread that holds the baton -- and only if it is the one calling."""
        th = self.current
        if th is not None and threading.current_thread() is not th.thread:
            # a straggler of an aborted run (or a finaliser on a foreign thread): it must not touch this schedule
            raise SystemExit
        return th

    def sleep(self, dt: float) -> None:
        th = self._holder()
        if th is None:
            self.now_ns += int(dt * 1e9)
            return
        th.state = "sleeping"
        th.wake = self.now_ns + max(int(dt * 1e9), 1)
        self.counters["sleep"] = self.counters.get("sleep", 0) + 1
        self._yield(th)
        th.sleeps += 1
        th.last_wake_point = self.points
        fa = self.freeze_after_sleep.get(th.name)
        if fa is not None and th.sleeps == fa[0]:
            th.freeze_in = fa[1]

    def lock_factory(self) -> SimLock:
        return SimLock(self)

    # ---- scheduling -------------------------------------------------------------
    def spawn(self, name: str, fn: Callable[[], None]) -> SimThread:
        t = SimThread(self, name, fn)
        self.threads.append(t)
        t.thread.start()
        return t

    def preempt(self, th: SimThread) -> None:
        """A pre-emption point inside thread `th` (which holds the baton)."""
        if self.aborting:
            raise SystemExit
        self.points += 1
        th.points += 1
        if self.points - self._prog_point > self.max_points or self.points > self.hard_points:
            self.aborting = True
            raise StepCapHit()
        sa = self.stall_at.get(th.name)
        if th.freeze_in is not None:
            # injected fault: a few lines after waking up from its k-th sleep the thread freezes (polling loops look,
            # then decide: the freeze lands between the two)
            th.freeze_in -= 1
            if th.freeze_in <= 0:
                th.freeze_in = None
                self.stall[th.name] = self.iters + self.freeze_after_sleep[th.name][2]
                self.counters["frozen-after-a-sleep"] = self.counters.get("frozen-after-a-sleep", 0) + 1
                th.state = "ready"
                self._yield(th)
                return
        if sa is not None and th.points == sa[0]:
            # injected fault: this thread freezes right here (after its sa[0]-th line) for sa[1] scheduling decisions
            self.stall[th.name] = self.iters + sa[1]
            self.counters["stalled-at-a-point"] = self.counters.get("stalled-at-a-point", 0) + 1
            th.state = "ready"
            self._yield(th)
            return
        if len(self.threads) > 1 and self.ch.flag(self.switch[0], self.switch[1], "preempt"):
            th.state = "ready"
            self._yield(th)

    def _yield(self, th: SimThread) -> None:
        """Give the baton back to the scheduler and wait to be resumed."""
        if self.aborting:
            raise SystemExit
        self.main_evt.set()
        th.go.wait()
        th.go.clear()
        if self.aborting:
            raise SystemExit

    def _to_main(self) -> None:
        self.main_evt.set()

    def _runnable(self) -> List[SimThread]:
        out = []
        for t in self.threads:
            if t.state == "done":
                continue
            if self.stall.get(t.name, 0) > self.iters:
                continue
            if t.state == "ready":
                out.append(t)
            elif t.state == "sleeping":
                # a sleeper may always be resumed: that jumps the clock to its wake-up time, i.e. the
                # other threads were slow meanwhile (a busy-polling thread must not freeze virtual time)
                out.append(t)
            elif t.state == "blocked" and t.blocked_on is not None and t.blocked_on.owner is None:
                out.append(t)
        return out

    def run(self) -> None:
        """Run all threads to completion under the seeded schedule."""
        try:
            while True:
                alive = [t for t in self.threads if t.state != "done"]
                if not alive:
                    return
                run = self._runnable()
                if not run:
                    # nothing can run now: let virtual time jump, or lift stalls
                    sleepers = [t for t in alive if t.state == "sleeping"]
                    stalled = [t for t in alive if self.stall.get(t.name, 0) > self.iters and t.state != "sleeping"]
                    if stalled:
                        for t in stalled:
                            self.stall[t.name] = 0
                        continue
                    if sleepers:
                        self.now_ns = max(self.now_ns, min(t.wake for t in sleepers))
                        for t in sleepers:
                            if self.stall.get(t.name, 0) > self.iters:
                                self.stall[t.name] = 0
                        continue
                    raise Deadlock(", ".join(f"{t.name}:{t.state}" for t in alive))
                self.iters += 1
                if self.iters - self._prog_iter > self.max_points or self.iters > self.hard_points:
                    # scheduling decisions are capped as well (a thread polling outside the traced files)
                    self.aborting = True
                    raise StepCapHit()
                t = run[self.ch.draw(len(run), "thread")]
                if self.current is not t:
                    self.switches += 1
                self.fp.append(t.name[0])
                self.current = t
                if t.state == "sleeping" and t.wake > self.now_ns:
                    self.now_ns = t.wake
                t.state = "ready"
                t.blocked_on = None
                t.go.set()
                self.main_evt.wait()
                self.main_evt.clear()
                self.current = None
                if self.aborting:
                    raise StepCapHit()
        finally:
            self._abort_all()

    def _abort_all(self) -> None:
        self.aborting = True
        for t in self.threads:
            if t.state != "done":
                t.go.set()
        for t in self.threads:
            t.thread.join(timeout=2)
