"""Controller-side stubs: subclass-only seams over the real Executor / QNodeController.

Everything here overrides hooks the repository documents as "to be subclassed by
simulators".  No behaviour of the classical interpreter, the EPR bookkeeping, the unit
modules or the shared memory is replaced.
"""
from __future__ import annotations

import math
from types import GeneratorType
from typing import Any, Callable, Dict, Generator, List, Optional

from netqasm.backend.executor import Executor, inc_program_counter
from netqasm.backend.network_stack import BaseNetworkStack
from netqasm.backend.qnodeos import QNodeController
from netqasm.lang.instr import DebugInstruction, NVFlavour, VanillaFlavour


class NodeEnv:
    """What a simulated node shares with the rig: identity, quantum memory, clock,
    monitors.  Plain data, no behaviour of the system under test."""

    def __init__(self, name: str, node_id: int, qmem: Any, clock: Callable[[], int]):
        self.name = name
        self.node_id = node_id
        self.qmem = qmem
        self.clock = clock
        self.instr_done = 0          # completed instructions (progress measure for the liveness watches)
        self.slow_clear = False      # clearing a physical qubit suspends the instruction (set per run)
        self.slow_clears = 0
        self.before_instr: List[Callable] = []
        self.after_instr: List[Callable] = []
        self.retry_armed = False
        self.retry_count = 0
        self.wait_polls = 0
        self.crot_virtual: List[tuple] = []


class SimExecutor(Executor):
    def __init__(self, name=None, instr_log_dir=None, env: Optional[NodeEnv] = None, **kwargs):
        super().__init__(name=name, instr_log_dir=None)
        assert env is not None
        self.env = env
        # the base class has no handler for meas_basis; simulators add one
        self._instruction_handlers["meas_basis"] = self._instr_meas_basis

    # -- identity / time ---------------------------------------------------
    @property
    def node_id(self) -> int:
        return self.env.node_id

    def _get_simulated_time(self) -> int:
        return self.env.clock()

    # -- scheduling seams --------------------------------------------------
    def _execute_command(self, subroutine_id, command):
        pc = self._program_counters[subroutine_id]
        if isinstance(command, DebugInstruction):
            # transpiler annotations (debug=True) are not executable: a simulator skips them
            self._program_counters[subroutine_id] += 1
            yield ("instr", subroutine_id, pc)
            return
        for f in self.env.before_instr:
            f(self, subroutine_id, pc, command)
        yield from super()._execute_command(subroutine_id, command)
        self.env.instr_done += 1
        for f in self.env.after_instr:
            f(self, subroutine_id, pc, command)
        yield ("instr", subroutine_id, pc)

    def _do_wait(self):
        self.env.wait_polls += 1
        yield ("wait",)

    def _wait_to_handle_epr_responses(self) -> None:
        # documented override point ("can be subclassed to sleep a little"): the base
        # version recurses without bound; here a retry timer owned by the scheduler
        # calls _handle_pending_epr_responses() again later.
        self.env.retry_armed = True

    def retry_pending(self) -> None:
        self.env.retry_armed = False
        self.env.retry_count += 1
        self._handle_pending_epr_responses()

    # -- quantum hooks -----------------------------------------------------
    def _phys(self, subroutine_id: int, address: int) -> int:
        return self._get_position(subroutine_id=subroutine_id, address=address)

    def _do_single_qubit_instr(self, instr, subroutine_id, address):
        phys = self._phys(subroutine_id, address)
        if instr.mnemonic == "init":
            self.env.qmem.init(phys)
        else:
            self.env.qmem.gate1(instr.mnemonic, phys)
        return None

    def _do_single_qubit_rotation(self, instr, subroutine_id, address, angle):
        phys = self._phys(subroutine_id, address)
        self.env.qmem.rot(instr.mnemonic, phys, angle)
        return None

    def _do_controlled_qubit_rotation(self, instr, subroutine_id, address1, address2, angle):
        p1 = self._phys(subroutine_id, address1)
        p2 = self._phys(subroutine_id, address2)
        self.env.crot_virtual.append((address1, address2))
        self.env.qmem.crot(instr.mnemonic, p1, p2, angle)
        return None

    def _do_two_qubit_instr(self, instr, subroutine_id, address1, address2):
        p1 = self._phys(subroutine_id, address1)
        p2 = self._phys(subroutine_id, address2)
        self.env.qmem.gate2(instr.mnemonic, p1, p2)
        return None

    def _do_meas(self, subroutine_id, q_address):
        phys = self._phys(subroutine_id, q_address)
        return self.env.qmem.meas(phys)

    @inc_program_counter
    def _instr_meas_basis(self, subroutine_id, instr):
        app_id = self._get_app_id(subroutine_id=subroutine_id)
        q_address = self._get_register(app_id=app_id, register=instr.qreg)
        assert q_address is not None
        phys = self._phys(subroutine_id, q_address)
        d = instr.angle_denom.value
        ax1 = instr.angle_num_x1.value * math.pi / 2 ** d
        ay = instr.angle_num_y.value * math.pi / 2 ** d
        ax2 = instr.angle_num_x2.value * math.pi / 2 ** d
        qm = self.env.qmem
        qm.rot("rot_x", phys, ax1)
        qm.rot("rot_y", phys, ay)
        qm.rot("rot_x", phys, ax2)
        outcome = qm.meas(phys)
        qm.rot("rot_x", phys, -ax2)
        qm.rot("rot_y", phys, -ay)
        qm.rot("rot_x", phys, -ax1)
        self._set_register(app_id=app_id, register=instr.creg, value=outcome)
        return outcome

    def _reserve_physical_qubit(self, physical_address):
        self.env.qmem.reserve(physical_address)
        return None

    def _clear_phys_qubit_in_memory(self, physical_address):
        # the documented seam is a generator ("to be subclassed for different quantum processors"): with slow_clear the
        # simulated hardware takes its time, i.e. the instruction (qfree, or an application stop) is suspended here and
        # other parties may run before it goes on
        self.env.qmem.release(physical_address)
        if self.env.slow_clear:
            return self._slow_clear(physical_address)
        return None

    def _slow_clear(self, physical_address):
        self.env.slow_clears += 1
        yield ("clear", physical_address)


class SimQNodeController(QNodeController):
    def __init__(self, name: str, flavour=None, env: Optional[NodeEnv] = None):
        super().__init__(name=name, instr_log_dir=None, flavour=flavour, env=env)
        self.finished_msgs: List[int] = []

    @classmethod
    def _get_executor_class(cls, flavour=None):
        return SimExecutor

    def stop(self) -> None:
        pass

    def _mark_message_finished(self, msg_id, msg) -> None:
        self.finished_msgs.append(msg_id)

    @property
    def executor(self) -> SimExecutor:
        return self._executor  # type: ignore[return-value]


class SimNetworkStack(BaseNetworkStack):
    """Records every request; forwards create requests to the fake link layer."""

    def __init__(self, node_id: int, link: Any = None):
        self.node_id = node_id
        self.link = link
        self.puts: List[Any] = []
        self.sockets: List[Any] = []
        # socket id -> purpose id; identity as in SquidASM unless a property's run installs another bijection
        self.pfun: Any = lambda s, r=None: s      # (socket id, remote node id) -> purpose id
        self.refuse: Any = None      # injected fault: predicate(request) -> True = the stack refuses the request
        self.refused = 0

    def put(self, request) -> None:
        if self.refuse is not None and self.refuse(request):
            self.refused += 1
            raise RuntimeError("simulated fault: the network stack refuses the request")
        self.puts.append(request)
        if self.link is not None:
            self.link.on_put(self.node_id, request)

    def setup_epr_socket(self, epr_socket_id, remote_node_id, remote_epr_socket_id, timeout=1.0):
        self.sockets.append((epr_socket_id, remote_node_id, remote_epr_socket_id))
        if self.link is not None:
            self.link.on_socket(self.node_id, epr_socket_id, remote_node_id, remote_epr_socket_id)
        return None

    def get_purpose_id(self, remote_node_id: int, epr_socket_id: int) -> int:
        return self.pfun(epr_socket_id, remote_node_id)


def flavour_of(name: str):
    return NVFlavour() if name == "nv" else VanillaFlavour()


def reset_globals() -> None:
    """Process-global state of the code under test that must not leak between runs."""
    from netqasm.backend.executor import Executor as E
    from netqasm.sdk.connection import BaseNetQASMConnection
    from netqasm.sdk.shared_memory import SharedMemoryManager

    SharedMemoryManager.reset_memories()
    BaseNetQASMConnection._app_ids.clear()
    BaseNetQASMConnection._app_names.clear()
    E._INSTR_LOGGERS.clear()
