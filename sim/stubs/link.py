"""Fake link layer shared by the simulated nodes.

Accepts `put(LinkLayerCreate)` from a node's network stack (after passing it through the
repository's own `request_to_qlink_1_0`, as a real stack does), pairs it with the remote
socket, generates the requested pairs over virtual time (per request key in order, as a
link layer does), and hands one response per real side to the scheduler for independent
delivery.  Across request keys deliveries race freely; within one key they keep the
link's order.  Nodes without a controller ("ghosts") stand for remote peers in
single-node scenarios.
"""
from __future__ import annotations

from enum import Enum
from typing import Any, Callable, Dict, List, Optional, Tuple

import qlink_interface as ql

from netqasm.qlink_compat import (
    Basis,
    BellState,
    LinkLayerOKTypeK,
    LinkLayerOKTypeM,
    RequestType,
    ReturnType,
    request_to_qlink_1_0,
)

from sim.core import Choices, Sched, Trace

PHYS_BASE = 1000


class LinkBell(Enum):
    """The link layer's own record of which Bell state a pair is in, independent of the repository's enum.  On the wire
    it is reported the way the response's interface numbers it: a qlink-interface 1.0 response carries the member of
    qlink_interface.BellState with that NAME (its numbering differs from netqasm's), a netqasm-native ("legacy")
    response carries netqasm.qlink_compat.BellState."""
    PHI_PLUS = 0   # |00> + |11>
    PSI_PLUS = 1   # |01> + |10>
    PSI_MINUS = 2  # |01> - |10>
    PHI_MINUS = 3  # |00> - |11>


class PairSpec:
    """What the link decided for one pair."""
    __slots__ = ("bell", "out_c", "out_r", "basis_c", "basis_r", "goodness", "t_good", "seq", "phys_c", "phys_r")


class FakeLink:
    def __init__(self, ch: Choices, sched: Sched, trace: Trace, legacy: bool = False,
                 max_gen_delay: int = 2000, max_deliver_delay: int = 2000, bell_choices: int = 4,
                 quantum: Any = None, distinct_fields: bool = False):
        self.ch = ch
        self.sched = sched
        self.trace = trace
        self.legacy = legacy
        self.max_gen_delay = max_gen_delay
        self.max_deliver_delay = max_deliver_delay
        self.bell_choices = bell_choices
        self.quantum = quantum  # optional object with make_pair / measure_pair
        self.distinct_fields = distinct_fields
        self.nodes: Dict[int, Any] = {}
        self.sock: Dict[Tuple[int, int], Tuple[int, int]] = {}
        self.next_create_id: Dict[int, int] = {}
        self.next_phys: Dict[int, int] = {}
        self.next_seq = 0
        self.field_ctr = 100
        self.puts: List[Tuple[int, Any]] = []
        self.gen_queues: Dict[Tuple[int, int, int], List[dict]] = {}
        self.queues: Dict[Tuple[int, str, int, int], List[Any]] = {}
        self.delivered: List[dict] = []
        self.generated: List[dict] = []
        self.counters: Dict[str, int] = {}
        self.stopped = False
        self.bell_override: Optional[Callable[[dict, int], LinkBell]] = None
        self.goodness_override: Optional[Callable[[dict, int], Optional[int]]] = None   # the reported generation duration
        self.lazy = 0 if (max_gen_delay == 0) else ch.pick([0, 0, 0, 25, 150])   # extra scheduler turns per generated pair
        self.phys_from_executor = False          # physical ids of delivered halves: own numbering (1000+) or the executor's
        self.reserved: Dict[int, set] = {}       # node -> physical qubits reserved for pairs in flight / not yet mapped
        self.validate_all = False
        self.validate = True
        # injected fault kind: the link answers the first pair of a create request at once, from inside the stack's put()
        # (the creator's controller has not booked the request yet when the response comes in)
        self.eager = False

    def bump(self, k: str, n: int = 1) -> None:
        self.counters[k] = self.counters.get(k, 0) + n

    # -- wiring --------------------------------------------------------------
    def attach(self, node: Any) -> None:
        self.nodes[node.env.node_id] = node

    def purpose(self, node_id: int, sock: int, remote: Optional[int] = None) -> int:
        """The purpose id a node's network stack assigns to a socket id towards `remote` (ghost peers: the socket id)."""
        n = self.nodes.get(node_id)
        st = getattr(n, "stack", None) if n is not None else None
        return st.pfun(sock, remote) if st is not None else sock

    def on_socket(self, node_id: int, sock: int, remote: int, remote_sock: int) -> None:
        self.sock[(node_id, self.purpose(node_id, sock, remote))] = (remote, self.purpose(remote, remote_sock, node_id))

    def new_phys(self, node_id: int) -> int:
        if self.phys_from_executor and node_id in self.nodes:
            # as a real stack does: ask the controller for a free physical qubit when the pair is generated; the
            # executor marks it in use at once, the keep response that maps it arrives later
            p = self.nodes[node_id].ex._get_unused_physical_qubit()
            self.reserved.setdefault(node_id, set()).add(p)
            self.bump("physical-qubit-reserved-through-the-executor")
            return p
        p = self.next_phys.get(node_id, PHYS_BASE)
        self.next_phys[node_id] = p + 1
        return p

    def uniq(self) -> int:
        self.field_ctr += 1
        return self.field_ctr

    # -- requests ------------------------------------------------------------
    def on_put(self, node_id: int, request: Any) -> None:
        # a real stack converts to the qlink-1.0 interface; it must be accepted
        # (remote-state-preparation requests have no qlink-1.0 form; only C11 insists on one)
        if self.validate and (self.validate_all or request.type != RequestType.R):
            request_to_qlink_1_0(request)
        self.puts.append((node_id, request))
        remote = request.remote_node_id
        purpose = request.purpose_id
        rs = self.sock.get((node_id, purpose))
        remote_purpose = rs[1] if rs is not None else purpose
        self.submit(creator=node_id, receiver=remote, purpose_c=purpose, purpose_r=remote_purpose,
                    tp=request.type, number=request.number, request=request)

    def submit(self, creator: int, receiver: int, purpose_c: int, purpose_r: int, tp: RequestType,
               number: int, request: Any = None, tag: Any = None) -> int:
        if request is None:
            # submitted by a harness on behalf of a ghost creator: the arguments are socket ids
            purpose_c = self.purpose(creator, purpose_c, receiver)
            purpose_r = self.purpose(receiver, purpose_r, creator)
        cid = self.next_create_id.get(creator, 0)
        self.next_create_id[creator] = cid + 1
        key = (creator, receiver, purpose_c)
        job = {"creator": creator, "receiver": receiver, "purpose_c": purpose_c, "purpose_r": purpose_r,
               "type": tp, "number": number, "create_id": cid if not self.distinct_fields else self.uniq(),
               "request": request, "tag": tag}
        q = self.gen_queues.get(key)
        if q is None:
            q = []
            self.gen_queues[key] = q
            self.sched.spawn(f"link-gen{key}", self._gen_task(key, q), party="link")
        eager = (self.eager and request is not None and creator in self.nodes and not q
                 and not self.queues.get((creator, "create", receiver, purpose_c)) and self.ch.flag(1, 2, "eager-now"))
        q.append(job)
        if eager:
            job["done"] = 1
            self._make_pair(job, 0)
            qk = (creator, "create", receiver, purpose_c)
            resp, rec = self.queues[qk].pop()
            self.bump("answered-from-inside-put")
            self.delivered.append({"seq": self.sched.seq, "dest": creator, "role": "create", "remote": receiver,
                                   "purpose": purpose_c, "resp": resp, "rec": rec})
            self.trace.add("deliver-in-put", creator, "create", receiver, purpose_c, rec["seq"])
            self.nodes[creator].on_delivery(resp, qk, rec)
        return cid

    def _gen_task(self, key, q: List[dict]):
        while True:
            if not q:
                if self.stopped:
                    return
                yield ("block", lambda: bool(q) or self.stopped)
                continue
            job = q[0]
            for k in range(job.get("done", 0), job["number"]):
                yield ("sleep", self.ch.draw(self.max_gen_delay + 1, "gen-delay"))
                if self.lazy:
                    # a slow link: under a scheduler that picks parties at random a delay is only felt if it costs turns
                    for _ in range(self.ch.draw(self.lazy + 1, "gen-lazy")):
                        yield ("sleep", 1)
                        if self.stopped:
                            return
                    self.bump("slow-pair-generation")
                self._make_pair(job, k)
            q.pop(0)

    # -- pair generation -----------------------------------------------------
    def _make_pair(self, job: dict, k: int) -> None:
        ch = self.ch
        c, r = job["creator"], job["receiver"]
        tp = job["type"]
        bell = self.bell_override(job, k) if self.bell_override is not None else LinkBell(ch.draw(self.bell_choices, "bell"))
        seq = self.next_seq if not self.distinct_fields else self.uniq()
        self.next_seq += 1
        good = self.uniq() if self.distinct_fields else ch.draw(8, "goodness")
        if self.goodness_override is not None:
            g2 = self.goodness_override(job, k)
            if g2 is not None:
                good = g2
        tgood = self.uniq() if self.distinct_fields else self.sched.now
        rec = {"job": job, "k": k, "bell": bell, "seq": seq}
        self.bump(f"bell:{bell.name}")
        if tp == RequestType.K:
            pc = self.new_phys(c) if c in self.nodes else None
            pr = self.new_phys(r) if r in self.nodes else None
            if self.quantum is not None:
                self.quantum.make_pair(c if c in self.nodes else None, pc, r if r in self.nodes else None, pr, bell)
            else:
                if pc is not None:
                    self.nodes[c].env.qmem.link_deposit(pc)
                if pr is not None:
                    self.nodes[r].env.qmem.link_deposit(pr)
            rec.update(phys_c=pc, phys_r=pr)
            if c in self.nodes:
                self._enqueue(c, "create", r, job["purpose_c"],
                              self._resp_k(job["create_id"], pc, 0, seq, job["purpose_c"], r, good, tgood, bell), rec)
            if r in self.nodes:
                self._enqueue(r, "recv", c, job["purpose_r"],
                              self._resp_k(job["create_id"], pr, 1, seq, job["purpose_r"], c, good, tgood, bell), rec)
        elif tp in (RequestType.M, RequestType.R):
            req = job["request"]
            if self.quantum is not None:
                oc, bc, orr, br, pr = self.quantum.measure_pair(job, k, bell, self, rec)
            else:
                oc, orr = ch.draw(2, "m-out-c"), ch.draw(2, "m-out-r")
                bc = Basis(ch.draw(3, "m-basis-c")) if (req is None or getattr(req, "random_basis_local", None)) else Basis.Z
                br = Basis(ch.draw(3, "m-basis-r")) if (req is None or getattr(req, "random_basis_remote", None)) else Basis.Z
                pr = None
                if tp == RequestType.R and r in self.nodes:
                    pr = self.new_phys(r)
                    self.nodes[r].env.qmem.link_deposit(pr)
            rec.update(out_c=oc, out_r=orr, basis_c=bc, basis_r=br, phys_r=pr)
            if c in self.nodes:
                self._enqueue(c, "create", r, job["purpose_c"],
                              self._resp_m(job["create_id"], oc, bc, 0, seq, job["purpose_c"], r, good, bell), rec)
            if r in self.nodes:
                if tp == RequestType.M:
                    self._enqueue(r, "recv", c, job["purpose_r"],
                                  self._resp_m(job["create_id"], orr, br, 1, seq, job["purpose_r"], c, good, bell), rec)
                else:
                    self._enqueue(r, "recv", c, job["purpose_r"],
                                  self._resp_k(job["create_id"], pr, 1, seq, job["purpose_r"], c, good, tgood, bell), rec)
        else:
            raise ValueError(f"fake link: unsupported request type {tp}")
        self.generated.append(rec)

    def _resp_k(self, cid, phys, d, seq, purpose, remote, good, tgood, bell):
        if self.legacy:
            return LinkLayerOKTypeK(type=ReturnType.OK_K, create_id=cid, logical_qubit_id=phys, directionality_flag=d,
                                    sequence_number=seq, purpose_id=purpose, remote_node_id=remote, goodness=good,
                                    goodness_time=tgood, bell_state=BellState(bell.value))
        return ql.ResCreateAndKeep(create_id=cid, directionality_flag=d, sequence_number=seq, purpose_id=purpose,
                                   remote_node_id=remote, goodness=good, bell_state=ql.BellState[bell.name], logical_qubit_id=phys,
                                   time_of_goodness=tgood)

    def _resp_m(self, cid, outcome, basis, d, seq, purpose, remote, good, bell):
        if self.legacy:
            return LinkLayerOKTypeM(type=ReturnType.OK_M, create_id=cid, measurement_outcome=outcome,
                                    measurement_basis=basis, directionality_flag=d, sequence_number=seq,
                                    purpose_id=purpose, remote_node_id=remote, goodness=good, bell_state=BellState(bell.value))
        return ql.ResMeasureDirectly(create_id=cid, directionality_flag=d, sequence_number=seq, purpose_id=purpose,
                                     remote_node_id=remote, goodness=good, bell_state=ql.BellState[bell.name],
                                     measurement_outcome=outcome, measurement_basis=ql.MeasurementBasis(basis.value))

    # -- delivery ------------------------------------------------------------
    def _enqueue(self, dest: int, role: str, remote: int, purpose: int, resp: Any, rec: dict) -> None:
        qk = (dest, role, remote, purpose)
        q = self.queues.get(qk)
        if q is None:
            q = []
            self.queues[qk] = q
            self.sched.spawn(f"link-dlv{qk}", self._deliver_task(qk, q), party="link")
        q.append((resp, rec))

    def _deliver_task(self, qk, q: List[Any]):
        dest = qk[0]
        while True:
            if not q:
                if self.stopped:
                    return
                yield ("block", lambda: bool(q) or self.stopped)
                continue
            yield ("sleep", self.ch.draw(self.max_deliver_delay + 1, "dlv-delay"))
            resp, rec = q.pop(0)
            node = self.nodes[dest]
            self.delivered.append({"seq": self.sched.seq, "dest": dest, "role": qk[1], "remote": qk[2],
                                   "purpose": qk[3], "resp": resp, "rec": rec})
            self.trace.add("deliver", dest, qk[1], qk[2], qk[3], rec["seq"])
            node.on_delivery(resp, qk, rec)

    def idle(self) -> bool:
        return not any(self.gen_queues.values()) and not any(self.queues.values())

    def stop(self) -> None:
        self.stopped = True
