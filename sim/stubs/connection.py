"""Host-side stub: a real BaseNetQASMConnection whose only abstract seam
(_commit_serialized_message) hands the serialised bytes to the simulated controller.

InitNewApp / OpenEPRSocket are handled synchronously (the SDK spins on the shared memory
right after sending InitNewApp).  Subroutine / StopApp / Signal messages are queued; the
host task that made the SDK call then lets the controller process them one instruction
per scheduler event, and continues when they are done (blocking flush).
"""
from __future__ import annotations

from typing import Any, Callable, Dict, Generator, List, Optional, Type

from netqasm.backend.messages import MessageType
from netqasm.sdk.connection import BaseNetQASMConnection
from netqasm.sdk.network import NetworkInfo


class SimNetworkInfo(NetworkInfo):
    node_ids: Dict[str, int] = {}      # node name -> id
    app_nodes: Dict[str, str] = {}     # app name -> node name

    @classmethod
    def reset(cls) -> None:
        cls.node_ids = {}
        cls.app_nodes = {}

    @classmethod
    def _get_node_id(cls, node_name: str) -> int:
        return cls.node_ids[node_name]

    @classmethod
    def _get_node_name(cls, node_id: int) -> str:
        for n, i in cls.node_ids.items():
            if i == node_id:
                return n
        raise ValueError(f"unknown node id {node_id}")

    @classmethod
    def get_node_id_for_app(cls, app_name: str) -> int:
        return cls.node_ids[cls.app_nodes[app_name]]

    @classmethod
    def get_node_name_for_app(cls, app_name: str) -> str:
        return cls.app_nodes[app_name]


class SimConnection(BaseNetQASMConnection):
    def __init__(self, app_name: str, node: Any, **kwargs):
        self.sim_node = node
        self.outbox: List[bytes] = []
        self.sent: List[bytes] = []
        SimNetworkInfo.node_ids.setdefault(node.env.name, node.env.node_id)
        SimNetworkInfo.app_nodes[app_name] = node.env.name
        super().__init__(app_name=app_name, node_name=node.env.name, **kwargs)

    def _get_network_info(self) -> Type[NetworkInfo]:
        return SimNetworkInfo

    def _commit_serialized_message(self, raw_msg: bytes, block: bool = True, callback: Optional[Callable] = None) -> None:
        self.sent.append(raw_msg)
        tp = raw_msg[0]
        if tp in (MessageType.INIT_NEW_APP.value, MessageType.OPEN_EPR_SOCKET.value):
            self.sim_node.run_raw_now(raw_msg)
        else:
            self.outbox.append(raw_msg)

    def drain(self) -> Generator:
        """Let the controller process everything queued, one instruction per event."""
        while self.outbox:
            raw = self.outbox.pop(0)
            g = self.sim_node.handle_raw(raw)
            for y in g:
                yield y

    def drain_now(self, max_steps: int = 100000) -> None:
        n = 0
        for _ in self.drain():
            n += 1
            if n > max_steps:
                from sim.core import Violation
                raise Violation("controller", "controller-does-not-terminate",
                                {"steps": n, "note": "an SDK-emitted subroutine ran past the step cap on the controller"})
