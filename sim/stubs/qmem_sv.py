"""State-vector universe: one global pure state over every physical qubit of every node
(and the link's halves held for ghost peers).  Each mnemonic is implemented from its
textbook / NetQASM-documentation definition -- NOT from the instruction classes'
to_matrix():

  x y z h s t   the usual Pauli / Hadamard / phase / pi-8 gates;  k = (Y+Z)/sqrt2
  rot_P(theta) = exp(-i theta P / 2)
  cnot, cphase (CZ);  mov = state transfer implemented as swap
  crot_P(theta) = |0><0| (x) R_P(theta) + |1><1| (x) R_P(-theta)   (NV electron-controlled rotation)
  init -> |0>;  meas: Z-basis, outcome 0 iff u < p0 for the next uniform draw u

Collapse decisions come from one stream of uniform draws so that twin runs see the same
outcomes whenever their states agree.
"""
from __future__ import annotations

import cmath
import math
from typing import Any, Callable, Dict, Hashable, List, Optional, Sequence, Tuple

import numpy as np

SQ = 1 / math.sqrt(2)
I2 = np.eye(2, dtype=complex)
X = np.array([[0, 1], [1, 0]], dtype=complex)
Y = np.array([[0, -1j], [1j, 0]], dtype=complex)
Z = np.array([[1, 0], [0, -1]], dtype=complex)
H = np.array([[1, 1], [1, -1]], dtype=complex) * SQ
K = (Y + Z) * SQ
S = np.array([[1, 0], [0, 1j]], dtype=complex)
T = np.array([[1, 0], [0, cmath.exp(1j * math.pi / 4)]], dtype=complex)
GATE1 = {"x": X, "y": Y, "z": Z, "h": H, "k": K, "s": S, "t": T}
PAULI = {"x": X, "y": Y, "z": Z}
CNOT = np.array([[1, 0, 0, 0], [0, 1, 0, 0], [0, 0, 0, 1], [0, 0, 1, 0]], dtype=complex)
CZ = np.diag([1, 1, 1, -1]).astype(complex)
SWAP = np.array([[1, 0, 0, 0], [0, 0, 1, 0], [0, 1, 0, 0], [0, 0, 0, 1]], dtype=complex)


def rot(axis: str, theta: float) -> np.ndarray:
    return math.cos(theta / 2) * I2 - 1j * math.sin(theta / 2) * PAULI[axis]


def crot(axis: str, theta: float) -> np.ndarray:
    u = np.zeros((4, 4), dtype=complex)
    u[0:2, 0:2] = rot(axis, theta)
    u[2:4, 2:4] = rot(axis, -theta)
    return u


BELL = {
    "PHI_PLUS": np.array([1, 0, 0, 1], dtype=complex) * SQ,
    "PSI_PLUS": np.array([0, 1, 1, 0], dtype=complex) * SQ,
    "PSI_MINUS": np.array([0, 1, -1, 0], dtype=complex) * SQ,
    "PHI_MINUS": np.array([1, 0, 0, -1], dtype=complex) * SQ,
}


class Universe:
    def __init__(self, u_source: Callable[[], float]):
        self.u = u_source
        self.slots: List[Hashable] = []          # slot key per tensor axis
        self.psi = np.ones((), dtype=complex)    # rank-n tensor of shape (2,)*n
        self.errors: List[str] = []
        self.nmeas = 0
        self.forced: List[int] = []              # forced outcomes (consumed first), for branch enumeration
        self.branch_prob = 1.0

    # -- structure ---------------------------------------------------------
    def has(self, key: Hashable) -> bool:
        return key in self.slots

    def add(self, key: Hashable, state: Optional[np.ndarray] = None) -> None:
        if key in self.slots:
            self.errors.append(f"slot {key} added twice")
            return
        v = np.array([1, 0], dtype=complex) if state is None else np.asarray(state, dtype=complex)
        self.psi = np.tensordot(self.psi, v, axes=0)
        self.slots.append(key)

    def add_pair(self, k1: Hashable, k2: Hashable, vec4: np.ndarray) -> None:
        for k in (k1, k2):
            if k in self.slots:
                self.errors.append(f"slot {k} added twice")
                return
        self.psi = np.tensordot(self.psi, vec4.reshape(2, 2), axes=0)
        self.slots += [k1, k2]

    def _ax(self, key: Hashable) -> int:
        try:
            return self.slots.index(key)
        except ValueError:
            self.errors.append(f"operation on missing slot {key}")
            raise KeyError(key)

    def apply1(self, key: Hashable, u: np.ndarray) -> None:
        a = self._ax(key)
        self.psi = np.moveaxis(np.tensordot(u, self.psi, axes=([1], [a])), 0, a)

    def apply2(self, k1: Hashable, k2: Hashable, u: np.ndarray) -> None:
        a, b = self._ax(k1), self._ax(k2)
        u4 = u.reshape(2, 2, 2, 2)
        out = np.tensordot(u4, self.psi, axes=([2, 3], [a, b]))
        self.psi = np.moveaxis(out, [0, 1], [a, b])

    def prob0(self, key: Hashable) -> float:
        a = self._ax(key)
        p = np.sum(np.abs(np.take(self.psi, 0, axis=a)) ** 2)
        return float(p.real)

    def measure(self, key: Hashable) -> int:
        a = self._ax(key)
        p0 = self.prob0(key)
        self.nmeas += 1
        if self.forced:
            m = self.forced.pop(0)
            pm = p0 if m == 0 else 1 - p0
            if pm < 1e-12:
                # a forced branch of probability zero: follow the possible one instead
                m = 1 - m
                pm = 1 - pm
            self.branch_prob *= pm
        else:
            u = self.u()
            m = 0 if u < p0 else 1
            pm = p0 if m == 0 else 1 - p0
        idx = [slice(None)] * self.psi.ndim
        idx[a] = 1 - m
        self.psi[tuple(idx)] = 0
        self.psi = self.psi / math.sqrt(max(pm, 1e-300))
        return m

    def remove(self, key: Hashable) -> None:
        """Drop a qubit.  A qubit in a product state with the rest is simply factored out (no collapse, no
        draw); only a qubit that is still entangled is measured first (collapse on free)."""
        a = self._ax(key)
        rho = self.reduced([key])
        w, v = np.linalg.eigh(rho)
        if w[-1] > 1 - 1e-10:
            phi = v[:, -1]                       # the qubit's own pure state: contract it away
            self.psi = np.tensordot(phi.conj(), self.psi, axes=([0], [a]))
        else:
            m = self.measure(key)
            self.psi = np.take(self.psi, m, axis=a)
        nrm = np.linalg.norm(self.psi)
        if nrm > 0:
            self.psi = self.psi / nrm
        self.slots.pop(a)

    def reset(self, key: Hashable) -> None:
        m = self.measure(key) if 1e-12 < self.prob0(key) < 1 - 1e-12 else (0 if self.prob0(key) > 0.5 else 1)
        if m == 1:
            self.apply1(key, X)

    # -- observation -------------------------------------------------------
    def reduced(self, keys: Sequence[Hashable]) -> np.ndarray:
        axes = [self._ax(k) for k in keys]
        n = self.psi.ndim
        rest = [i for i in range(n) if i not in axes]
        t = np.transpose(self.psi, axes + rest).reshape(2 ** len(axes), -1)
        return t @ t.conj().T

    def fidelity_with(self, keys: Sequence[Hashable], vec: np.ndarray) -> float:
        rho = self.reduced(keys)
        return float(np.real(vec.conj() @ rho @ vec))

    def statevector(self, keys: Sequence[Hashable]) -> Optional[np.ndarray]:
        """The pure state of `keys` if they are disentangled from the rest, else None."""
        rho = self.reduced(keys)
        w, v = np.linalg.eigh(rho)
        if w[-1] < 1 - 1e-9:
            return None
        return v[:, -1]

    def inject(self, keys: Sequence[Hashable], vec: np.ndarray) -> None:
        """Replace the (product, pure) state of `keys` by `vec` -- the simulator owns the memory seam."""
        for k in keys:
            self.remove(k)
        t = np.asarray(vec, dtype=complex).reshape((2,) * len(keys))
        self.psi = np.tensordot(self.psi, t, axes=0)
        self.slots += list(keys)


class SVQMem:
    """One node's view of the universe; same interface as TraceQMem."""

    def __init__(self, universe: Universe, node_id: int):
        self.uni = universe
        self.node = node_id
        self.live: set = set()
        self.link_pending: set = set()
        self.errors: List[str] = []
        self.log: List[tuple] = []
        self.crot_log: List[tuple] = []

    def key(self, phys: int) -> Tuple[int, int]:
        return (self.node, phys)

    def _chk(self, phys: int) -> bool:
        if phys not in self.live:
            self.errors.append(f"operation on unreserved physical qubit {phys}")
            return False
        return True

    def reserve(self, phys: int) -> None:
        if phys in self.live:
            if phys in self.link_pending:
                self.link_pending.discard(phys)
            else:
                self.errors.append(f"physical qubit {phys} reserved twice")
            return
        self.live.add(phys)
        self.uni.add(self.key(phys))

    def link_deposit(self, phys: int) -> None:
        # the link layer has already placed the half in the universe under self.key(phys)
        if phys in self.live:
            self.errors.append(f"link deposited a half on live physical qubit {phys}")
            return
        self.live.add(phys)
        self.link_pending.add(phys)

    def release(self, phys: int) -> None:
        if self._chk(phys):
            self.uni.remove(self.key(phys))
            self.live.discard(phys)

    def init(self, phys: int) -> None:
        if self._chk(phys):
            self.uni.reset(self.key(phys))

    def gate1(self, name: str, phys: int) -> None:
        if self._chk(phys):
            self.uni.apply1(self.key(phys), GATE1[name])

    def rot(self, name: str, phys: int, angle: float) -> None:
        if self._chk(phys):
            self.uni.apply1(self.key(phys), rot(name[-1], angle))

    def crot(self, name: str, p1: int, p2: int, angle: float) -> None:
        if self._chk(p1) and self._chk(p2):
            self.crot_log.append((p1, p2))
            self.uni.apply2(self.key(p1), self.key(p2), crot(name[-1], angle))

    def gate2(self, name: str, p1: int, p2: int) -> None:
        if self._chk(p1) and self._chk(p2):
            u = {"cnot": CNOT, "cphase": CZ, "mov": SWAP}[name]
            self.uni.apply2(self.key(p1), self.key(p2), u)

    def meas(self, phys: int) -> int:
        if not self._chk(phys):
            return 0
        m = self.uni.measure(self.key(phys))
        self.log.append(("meas", phys, m))
        return m
