"""Simulator core: choice stream, discrete-event scheduler, trace, shrinker.

One run is a pure function of (choice record, code under test).  Everything that is
decided at run time -- workload, swarm configuration, faults, delays, which task runs
next -- is drawn from one `Choices` object.  In *generate* mode the values come from
`random.Random(run_seed)`; in *replay* mode from a recorded list.  Logging never draws.
"""
from __future__ import annotations

import hashlib
import heapq
import json
import random
from typing import Any, Callable, Dict, Generator, List, Optional, Sequence, Tuple


def run_seed(batch_seed: int, prop: str, tier: str, index: int) -> int:
    h = hashlib.blake2b(f"{batch_seed}/{prop}/{tier}/{index}".encode(), digest_size=8)
    return int.from_bytes(h.digest(), "big")


class Violation(BaseException):
    """A property violation observed by an oracle during a simulated run.

    Derives from BaseException on purpose: oracles also run inside hooks called from the
    code under test, whose `except Exception` handlers must not swallow or re-wrap it."""

    def __init__(self, oracle: str, signature: str, detail: Any = None):
        super().__init__(f"{oracle}: {signature}")
        self.oracle = oracle
        self.signature = signature
        self.detail = detail


class Discard(BaseException):
    """The run left the property's domain (e.g. step cap in a non-terminating program)."""

    def __init__(self, reason: str):
        super().__init__(reason)
        self.reason = reason


class Choices:
    """The single source of nondeterminism of a run."""

    __slots__ = ("rec", "_replay", "_pos", "_rng", "overrun")

    def __init__(self, seed: Optional[int] = None, replay: Optional[Sequence[int]] = None):
        self.rec: List[int] = []
        self._replay = list(replay) if replay is not None else None
        self._pos = 0
        self._rng = random.Random(seed) if replay is None else None
        self.overrun = 0

    def draw(self, n: int, label: str = "") -> int:
        """An integer in [0, n).  0 is always the 'simplest' alternative."""
        if n <= 1:
            return 0
        if self._replay is None:
            v = self._rng.randrange(n)  # type: ignore[union-attr]
        else:
            if self._pos < len(self._replay):
                v = self._replay[self._pos]
                if v >= n or v < 0:
                    v = v % n
            else:
                v = 0
                self.overrun += 1
            self._pos += 1
        self.rec.append(v)
        return v

    def flag(self, num: int, den: int, label: str = "") -> bool:
        """True with probability num/den; a recorded 0 means False."""
        if num <= 0:
            return False
        if num >= den:
            return True
        return self.draw(den, label) >= den - num

    def pick(self, seq: Sequence[Any], label: str = "") -> Any:
        return seq[self.draw(len(seq), label)]

    def weighted(self, weights: Sequence[int], label: str = "") -> int:
        """Index drawn with the given integer weights; index 0 is the simplest."""
        tot = sum(weights)
        v = self.draw(tot, label)
        acc = 0
        for i, w in enumerate(weights):
            acc += w
            if v < acc:
                return i
        return len(weights) - 1

    def between(self, lo: int, hi: int, label: str = "") -> int:
        """Integer in [lo, hi] inclusive; lo is simplest."""
        return lo + self.draw(hi - lo + 1, label)

    def u01(self, label: str = "") -> float:
        """A uniform in [0,1) with 2^-20 resolution (used for Born-rule collapse)."""
        return self.draw(1 << 20, label) / float(1 << 20)


class Trace:
    """Event log of a run.  Appending never draws and never reads a clock."""

    __slots__ = ("events", "_h", "keep")

    def __init__(self, keep: int = 400):
        self.events: List[Any] = []
        self._h = hashlib.blake2b(digest_size=16)
        self.keep = keep

    def add(self, *ev: Any) -> None:
        self._h.update(repr(ev).encode())
        if len(self.events) < self.keep:
            self.events.append(ev)

    def digest(self) -> str:
        return self._h.hexdigest()


class Task:
    __slots__ = ("name", "gen", "wake", "pred", "done", "tid", "steps", "party", "result", "error")

    def __init__(self, tid: int, name: str, gen: Generator, wake: int, party: str):
        self.tid = tid
        self.name = name
        self.gen = gen
        self.wake = wake
        self.pred: Optional[Callable[[], bool]] = None
        self.done = False
        self.steps = 0
        self.party = party
        self.result: Any = None
        self.error: Optional[BaseException] = None


class Sched:
    """Discrete-event scheduler over generator tasks with virtual time.

    A task step is one `next()`.  A task may yield
      None / anything else      -> runnable again after `cost(task)` virtual ns
      ("sleep", dt)             -> runnable again at now+dt
      ("block", predicate)      -> runnable once predicate() is true
    Modes: "time"  -- the runnable task with the smallest (wake, seq) runs;
           "mix"   -- the next task is drawn uniformly from all runnable ones
                      (pure interleaving search), time only moves forward.
    """

    def __init__(self, ch: Choices, trace: Trace, mode: str = "mix", max_cost: int = 1000):
        self.ch = ch
        self.trace = trace
        self.mode = mode
        self.now = 0
        self.seq = 0
        self.tasks: List[Task] = []
        self.max_cost = max_cost
        self.steps = 0
        self.fp = hashlib.blake2b(digest_size=8)  # interleaving fingerprint
        self.switches = 0
        self._last_party: Optional[str] = None
        self.on_error: Optional[Callable[[Task, BaseException], None]] = None
        self.after_step: Optional[Callable[[Task, Any], None]] = None

    def spawn(self, name: str, gen: Generator, delay: int = 0, party: Optional[str] = None) -> Task:
        t = Task(len(self.tasks), name, gen, self.now + delay, party or name)
        self.tasks.append(t)
        return t

    def cost(self, t: Task) -> int:
        if self.max_cost <= 0:
            return 0
        return self.ch.draw(self.max_cost + 1, "cost")

    def runnable(self) -> List[Task]:
        out = []
        for t in self.tasks:
            if t.done:
                continue
            if t.pred is not None:
                if not t.pred():
                    continue
            out.append(t)
        return out

    def alive(self) -> List[Task]:
        return [t for t in self.tasks if not t.done]

    def step(self) -> Optional[Task]:
        """Run one event.  Returns the task that ran, or None if nothing is runnable."""
        run = self.runnable()
        if not run:
            return None
        if self.mode == "time":
            t = min(run, key=lambda x: (x.wake, x.tid))
            # ties in wake time are broken by a draw so that equal-time events race
            ties = [x for x in run if x.wake == t.wake]
            if len(ties) > 1:
                t = ties[self.ch.draw(len(ties), "tie")]
        else:
            t = run[self.ch.draw(len(run), "next")]
        if t.wake > self.now:
            self.now = t.wake
        self.seq += 1
        self.steps += 1
        t.steps += 1
        if t.pred is not None:
            t.pred = None
        if self._last_party is not None and self._last_party != t.party:
            self.switches += 1
        self._last_party = t.party
        self.fp.update(t.party.encode() + b"|")
        y: Any = None
        try:
            y = next(t.gen)
        except StopIteration as s:
            t.done = True
            t.result = s.value
        except (Violation, Discard):
            raise
        except BaseException as e:  # noqa: BLE001 - observation, classified by the rig
            t.done = True
            t.error = e
            if self.on_error is not None:
                self.on_error(t, e)
            else:
                raise
        if not t.done:
            if isinstance(y, tuple) and y and y[0] == "sleep":
                t.wake = self.now + int(y[1])
            elif isinstance(y, tuple) and y and y[0] == "wait":
                # a polling loop must let virtual time pass, or it livelocks the clock
                t.wake = self.now + 1 + self.cost(t)
            elif isinstance(y, tuple) and y and y[0] == "block":
                t.pred = y[1]
                t.wake = self.now
            else:
                t.wake = self.now + self.cost(t)
        if self.after_step is not None:
            self.after_step(t, y)
        return t

    def fingerprint(self) -> str:
        return self.fp.hexdigest()


# ---------------------------------------------------------------------------
# Shrinking of choice records
# ---------------------------------------------------------------------------

def shrink(
    choices: List[int],
    still_fails: Callable[[List[int]], Optional[List[int]]],
    budget: int = 1500,
    wall_s: float = 45.0,
) -> List[int]:
    """Minimise a choice record.

    `still_fails(candidate)` replays the candidate and returns the *effective* record of
    that replay if it ends in the same violation class, else None.  Strategies: delete
    blocks, zero blocks, halve / decrement single values.  0 always means "simplest", so
    lowering values simplifies workload, faults and schedule together.
    """
    import time as _time

    best = list(choices)
    tries = 0
    t_end = _time.time() + wall_s

    def attempt(cand: List[int]) -> bool:
        nonlocal best, tries
        if tries >= budget:
            return False
        if _time.time() > t_end:
            tries = budget
            return False
        tries += 1
        eff = still_fails(cand)
        if eff is not None and (len(eff), sum(eff)) < (len(best), sum(best)):
            best = list(eff)
            return True
        return False

    # truncate tail first: replay pads with zeros
    improved = True
    while improved and tries < budget:
        improved = False
        # 1. delete blocks
        size = max(1, len(best) // 2)
        while size >= 1 and tries < budget:
            i = 0
            while i < len(best) and tries < budget:
                cand = best[:i] + best[i + size:]
                if attempt(cand):
                    improved = True
                else:
                    i += size
            size //= 2
        # 2. zero blocks
        size = max(1, len(best) // 2)
        while size >= 1 and tries < budget:
            i = 0
            while i < len(best) and tries < budget:
                if any(best[i:i + size]):
                    cand = best[:i] + [0] * len(best[i:i + size]) + best[i + size:]
                    if attempt(cand):
                        improved = True
                i += size
            size //= 2
        # 3. lower single values
        i = 0
        while i < len(best) and tries < budget:
            v = best[i]
            if v > 0:
                for nv in (0, v // 2, v - 1):
                    if nv < v:
                        cand = best[:i] + [nv] + best[i + 1:]
                        if attempt(cand):
                            improved = True
                            break
            i += 1
    return best


def jsonable(o: Any, depth: int = 0) -> Any:
    """Anything -> something json.dump accepts (tuple keys become strings)."""
    if depth > 12:
        return repr(o)[:200]
    if o is None or isinstance(o, (bool, int, float, str)):
        return o
    if isinstance(o, dict):
        return {(k if isinstance(k, str) else repr(k)): jsonable(v, depth + 1) for k, v in o.items()}
    if isinstance(o, (list, tuple)):
        return [jsonable(v, depth + 1) for v in o]
    if isinstance(o, (set, frozenset)):
        return sorted((jsonable(v, depth + 1) for v in o), key=repr)
    return repr(o)[:300]


def jdump(obj: Any) -> str:
    return json.dumps(jsonable(obj), sort_keys=True)
