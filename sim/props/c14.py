"""C14 -- Compiling never runs out of registers because of finished operations.

Workload: one connection, a long history (40-400) of *completed* SDK operations (if x6
conditions x literal/Future/RegFuture operands x both forms, loop, loop_body, foreach,
enumerate, loop_until, add +-modulus, measure into arrays / registers, nesting up to 3)
with a flush after every k-th operation (k drawn).  Oracle: (i) every operation compiles;
(ii) a monitor on the builder's register pool: whenever no SDK operation is open the
active set must be empty -- a leaked register is *confirmed by repetition* (the same
operation is repeated until compilation actually fails) and reported with its
allocating call site; (iii) C05's differential oracle at every flush, which is what
detects a temporary that overwrote a live register of an enclosing operation.
"""
from __future__ import annotations

import hashlib
import traceback
from typing import Any, Dict, List, Optional

from sim.core import Choices, Discard, Sched, Trace, Violation
from sim.models.host_ref import EvalUndefined, Evaluator, HostGen
from sim.props.c05 import _last_sub, classify_ctrl_fault, compare_at_flush, remember_flush
from sim.rigs.controller import ControllerNode
from sim.rigs.host import SdkDriver
from sim.stubs.backend import reset_globals
from sim.stubs.connection import SimConnection, SimNetworkInfo
from sim.stubs.qmem_trace import TraceQMem

PROP = "C14"
RUNS = {"quick": 1200, "thorough": 120000}
BUDGET_S = {"quick": 60, "thorough": 1500}
RULE = ("one run = one connection x a history of 40-400 completed SDK operations of every kind (nesting <=3) with a flush "
        "after every k-th (k drawn 1..12), plus 10-130 entanglement operations on a second connection; non-trivial = the history holds at least 16 completed control operations "
        "(more than the register file) and at least three flushes; distinct = distinct history digest")
COMPONENTS = {
    "real": ["netqasm.sdk.memmgr.MemoryManager register pool", "Builder (if / loop / loop_until / foreach / enumerate "
             "contexts, condition temporaries)", "futures.add temporaries", "assembler, codec, controller, executor (for "
             "the differential oracle)"],
    "stub": ["register-pool monitor (wraps MemoryManager.add_active_register of the connection under test to record the "
             "allocating call site)", "trace memory", "generator + direct evaluator"],
}
ASSUMPTIONS = [
    "entanglement operations (keep plain / post routine / context, measure, rsp; both roles) form a second history on a "
    "compile-only connection: subroutines are assembled and encoded, not executed (their execution is judged by "
    "C09/C10/C12)",
    "the program shapes of C05's two recorded findings (register future measured inside a body; add on a future the host "
    "already read) are excluded from these histories",
    "programs hold no user-level register handles (no new_register), so between operations the active set must be empty",
    "a leak is reported only after repetition makes compilation actually fail (<= 20 repetitions)",
    "register-future measurements are limited to 6 per flush segment (M registers are held until flush by design)",
]
PROBES = ["other-connection-holds-registers", "epr-op", "ops>=100", "ops>=250", "flushes>=10", "depth-3", "if-on-future-unary",
          "loop_until", "regfuture-measure", "epr-nv-hardware", "window-capacity-probe"]

REPEAT = 20


def run(ch: Choices, opts: Dict[str, Any]) -> Dict[str, Any]:
    reset_globals()
    SimNetworkInfo.reset()
    # shapes of C05's recorded findings are always excluded here: they are C05's, not register-pool business
    avoid = set(opts.get("avoid", ())) | {"regfuture-in-body", "rewrite-after-read"}
    trace = Trace()
    tier = opts.get("tier", "quick")
    calm = ch.flag(1, 12, "calm")
    sched = Sched(ch, trace, mode="mix", max_cost=0)
    n_ops = 40 + ch.draw(120 if tier == "quick" else 360, "nops")
    k_flush = 1 + ch.draw(12, "kflush")
    script = [ch.draw(2, "outcome") for _ in range(32)]
    mc = {"n": 0}

    def outcome(_q):
        v = script[mc["n"] % len(script)]
        mc["n"] += 1
        return v

    ec = {"n": 0}

    def ev_outcome(_q):
        v = script[ec["n"] % len(script)]
        ec["n"] += 1
        return v

    qm = TraceQMem(outcome)
    node = ControllerNode("n0", 0, qm, lambda: sched.now, flavour="vanilla", with_stack=False)
    gen = HostGen(ch, max_qubits=4, avoid=avoid, max_depth=1 if calm else 3)
    ev = Evaluator(ev_outcome)
    faults: Dict[str, int] = {}
    probes: Dict[str, int] = {}

    def bump(d, k, n=1):
        d[k] = d.get(k, 0) + n

    conn = SimConnection("app", node, max_qubits=4)
    drv = SdkDriver(conn)
    mm = conn.builder._mem_mgr
    site: Dict[Any, str] = {}
    orig_add = mm.add_active_register

    def add_active_register(reg):
        st = traceback.extract_stack(limit=6)
        names = [f.name for f in st[:-1] if f.filename.endswith(("builder.py", "futures.py", "memmgr.py"))]
        site[reg] = "<-".join(reversed(names[-3:])) if names else "?"
        return orig_add(reg)

    mm.add_active_register = add_active_register  # type: ignore[assignment]

    # a second connection of the same process (another application's host) holds most of ITS registers in open loops
    # for a stretch of the history: what this connection can compile must not depend on it
    by_from = by_to = -1
    by_stack = None
    if not calm and ch.flag(1, 3, "bystander"):
        by_from = ch.draw(max(n_ops - 5, 1), "byfrom")
        by_to = by_from + 3 + ch.draw(30, "bylen")
        by_depth = 12 + ch.draw(4, "bydepth")
        node_b = ControllerNode("nb", 5, TraceQMem(lambda q: 0), lambda: sched.now, flavour="vanilla", with_stack=False)
        conn_b = SimConnection("bystander", node_b, max_qubits=2)

    history: List[tuple] = []
    sample = {"k_flush": k_flush, "history": history, "outcomes": script}
    n_flush = 0
    n_ctl = 0

    def do_flush(where: str) -> None:
        nonlocal n_flush
        for st in gen.flush_stmt():
            drv.exec(st)
            ev.exec(st)
            history.append(st)
        try:
            conn.drain_now()
        except Violation:
            raise
        except Exception as e:  # noqa: BLE001
            raise Violation("controller", f"controller-fault|{type(e).__name__}|{classify_ctrl_fault(e)}",
                            {"error": str(e)[:400], "subroutine": _last_sub(conn), **_small(sample)})
        n_flush += 1
        compare_at_flush(node, conn, drv, ev, qm, where, _small(sample), None)
        remember_flush(drv, ev)

    i = 0
    while i < n_ops:
        if i == by_from and by_stack is None:
            import contextlib
            by_stack = contextlib.ExitStack()
            for _ in range(by_depth):
                by_stack.enter_context(conn_b.loop(2))
            bump(probes, "other-connection-holds-registers")
            bump(faults, "other-connection-holds-its-registers-open")
        if i == by_to and by_stack is not None:
            by_stack.close()
            by_stack = None
            by_to = -2
        stmts = gen.stmt(top=True)
        if not stmts:
            i += 1
            continue
        for st in stmts:
            if st[0] == "flush":
                continue
            history.append(st)
            try:
                drv.exec(st)
            except Violation:
                raise
            except Exception as e:  # noqa: BLE001
                msg = str(e)
                fr = traceback.extract_tb(e.__traceback__)[-1]
                if "could not find an available" in msg or "Ran out of M-registers" in msg:
                    held = sorted(f"{r}@{site.get(r, '?')}" for r in mm._active_registers)
                    raise Violation("compile", f"compile-fails|{'M' if 'M-reg' in msg else 'R'}-registers-exhausted|{st[0]}",
                                    {"after_ops": len(history), "error": msg, "active_registers": held, **_small(sample)})
                raise Violation("sdk", f"sdk-exception|{type(e).__name__}|{fr.name}|{st[0]}",
                                {"stmt": st, "error": msg[:300], **_small(sample)})
            try:
                ev.exec(st)
            except EvalUndefined as u:
                raise RuntimeError(f"generator produced a read of an undefined value: {u}; stmt {st}")
            if st[0] in ("if", "loop", "foreach", "enumerate", "loop_until"):
                n_ctl += 1
            # (ii) pool monitor: no operation is open here
            if mm._active_registers:
                bump(probes, "leak-observed")
                leaked = sorted(mm._active_registers, key=str)
                sites = sorted({site.get(r, "?") for r in leaked})
                # confirm by repetition: does compilation actually fail?
                failed: Optional[str] = None
                reps = 0
                for reps in range(1, REPEAT + 1):
                    try:
                        drv.exec(st)
                    except Exception as e:  # noqa: BLE001
                        failed = str(e)
                        break
                if failed is not None and ("could not find an available" in failed or "Ran out of" in failed
                                           or "already active" in failed):
                    bump(probes, "leak-confirmed")
                    raise Violation("leak", f"register-leak|{'+'.join(sites)}",
                                    {"operation": st, "leaked": [str(r) for r in leaked], "allocated_at": sites,
                                     "fails_after_repetitions": reps, "error": failed[:200], "after_ops": len(history),
                                     **_small(sample)})
                raise Discard("leak observed but repetition did not exhaust the pool")
        i += 1
        if i % k_flush == 0:
            do_flush(f"flush#{n_flush + 1}@op{i}")
    if by_stack is not None:
        by_stack.close()
    # consume live qubits and close
    for q in list(gen.live):
        t = gen.target()
        st = ("measure", q, t, False)
        history.append(st)
        drv.exec(st)
        ev.exec(st)
        gen.note_written(t)
        gen.live.remove(q)
    do_flush("final")
    conn.close()
    conn.drain_now()

    n_epr = epr_phase(ch, tier, bump, probes, faults, _small(sample))

    if len(history) >= 100:
        bump(probes, "ops>=100")
    if len(history) >= 250:
        bump(probes, "ops>=250")
    if n_flush >= 10:
        bump(probes, "flushes>=10")
    for k in gen.kinds:
        if k in ("loop_until",):
            bump(probes, k)
        if k in ("if_ez_ctx", "if_nz_ctx", "if_ez_cb", "if_nz_cb"):
            bump(probes, "if-on-future-unary")
    if gen.nr:
        bump(probes, "regfuture-measure")
    from sim.props.c05 import max_depth
    if max_depth(history) >= 3:
        bump(probes, "depth-3")
    bump(faults, "flush-period-k", 1)
    h = hashlib.blake2b(repr((history, script, k_flush)).encode(), digest_size=10).hexdigest()
    dg = hashlib.blake2b(repr((qm.log, sorted(node.arrays(conn.app_id).items()) if conn.app_id in node.ex._app_arrays else None)).encode(), digest_size=10).hexdigest()
    nontrivial = n_ctl >= 16 and n_flush >= 3
    return {
        "digest": dg, "fingerprint": h, "nontrivial": bool(nontrivial), "events": len(history), "sim_ns": 0,
        "faults": faults, "probes": probes, "calm": calm,
        "sample": {"k_flush": k_flush, "ops": len(history), "control_ops": n_ctl, "flushes": n_flush, "epr_ops": n_epr,
                   "history_head": history[:12]},
    }


EPR_KINDS = ["create_keep", "recv_keep", "create_keep_post", "recv_keep_post", "create_context", "recv_context",
             "create_measure", "recv_measure", "create_rsp", "recv_rsp"]


# on NV hardware: one pair at a time and every qubit measured at once (what happens with other qubits alive is the
# subject of C09's recorded findings); the context forms are left out there (C09: their handles stay active)
EPR_KINDS_NV = ["create_keep", "recv_keep", "recv_keep_as_is", "create_keep", "create_measure", "recv_measure", "create_rsp", "recv_rsp"]


def epr_phase(ch: Choices, tier: str, bump, probes, faults, small: Dict[str, Any]) -> int:
    """Second half of the history: entanglement operations on a compile-only connection (the subroutines are
    assembled and encoded but not executed -- execution of these forms is C09/C10/C12's business; here only the
    register pool matters)."""
    from netqasm.sdk.build_epr import EprMeasBasis
    from netqasm.sdk.epr_socket import EPRSocket

    SimNetworkInfo.node_ids["g7"] = 7
    SimNetworkInfo.app_nodes["ghost"] = "g7"
    node2 = ControllerNode("n1", 1, TraceQMem(lambda q: 0), lambda: 0, flavour="vanilla", with_stack=True)
    sock = EPRSocket("ghost", epr_socket_id=0, remote_epr_socket_id=0)
    # a third of the histories compile for single-communication-qubit (NV) hardware: other code paths build the requests
    nvhw = ch.flag(1, 3, "epr-nv-hardware")
    if nvhw:
        from netqasm.sdk.build_types import NVHardwareConfig
        conn2 = SimConnection("app2", node2, max_qubits=5, epr_sockets=[sock], hardware_config=NVHardwareConfig(5))
        bump(probes, "epr-nv-hardware")
    else:
        conn2 = SimConnection("app2", node2, max_qubits=5, epr_sockets=[sock])
    mm = conn2.builder._mem_mgr
    site: Dict[Any, str] = {}
    orig_add = mm.add_active_register

    def add_active_register(reg):
        st = traceback.extract_stack(limit=7)
        names = [f.name for f in st[:-1] if f.filename.endswith(("builder.py", "futures.py", "memmgr.py", "epr_socket.py"))]
        site[reg] = "<-".join(reversed(names[-3:])) if names else "?"
        return orig_add(reg)

    mm.add_active_register = add_active_register  # type: ignore[assignment]
    n_ops = 10 + ch.draw(40 if tier == "quick" else 120, "nepr")
    k_flush = 1 + ch.draw(8, "keprflush")
    done: List[tuple] = []

    def one(kind: str, n: int) -> None:
        outcomes = conn2.new_array(n)

        def post(c, q, pair):
            q.H()
            q.measure(future=outcomes.get_future_index(pair))

        if kind == "create_keep":
            for q in sock.create_keep(number=n):
                q.measure()
        elif kind == "recv_keep":
            for q in sock.recv_keep(number=n):
                q.measure()
        elif kind == "recv_keep_as_is":
            for q in sock.recv_keep(number=n, expect_phi_plus=False):
                q.measure()
        elif kind == "create_keep_post":
            sock.create_keep(number=n, post_routine=post, sequential=True)
        elif kind == "recv_keep_post":
            sock.recv_keep(number=n, post_routine=post, sequential=True)
        elif kind in ("create_context", "recv_context"):
            ctx = sock.create_context(number=n, sequential=True) if kind == "create_context" else \
                sock.recv_context(number=n, sequential=True)
            with ctx as (q, pair):
                # the pair counter is a live value of the open context: it must be reserved while the body is built
                preg = str(getattr(pair, "reg", None) or pair) if not isinstance(pair, int) else str(pair.reg)
                if preg not in {str(r) for r in mm._active_registers}:
                    raise Violation("live", f"live-register-not-reserved|epr:{kind}",
                                    {"register": preg, "active": sorted(str(r) for r in mm._active_registers),
                                     "epr_history": done[-10:], **small})
                q.measure(future=outcomes.get_future_index(pair))
        elif kind == "create_measure":
            sock.create_measure(number=n, basis_local=EprMeasBasis.X, basis_remote=EprMeasBasis.X)
        elif kind == "recv_measure":
            sock.recv_measure(number=n)
        elif kind == "create_rsp":
            sock.create_rsp(number=n)
        else:
            for q in sock.recv_rsp(number=n):
                q.measure()

    caps: List[int] = []

    def capacity_probe(where: str) -> None:
        """At the start of a flush window: how many register measurements fit into one window?  M registers are held
        until the flush by design, so the number is bounded -- but it must be the same bound in every window."""
        from netqasm.sdk.qubit import Qubit
        c = 0
        while c < 40:
            q = Qubit(conn2)
            try:
                q.measure(store_array=False)
            except Exception as e:  # noqa: BLE001
                if "Ran out of M-registers" not in str(e):
                    raise
                q.free()
                break
            c += 1
        conn2.flush()
        conn2.outbox.clear()
        caps.append(c)
        done.append(("capacity-probe", c))
        bump(probes, "window-capacity-probe")
        if len(set(caps)) > 1:
            raise Violation("capacity", "capacity|register-measurements-per-window-depend-on-history",
                            {"capacities": caps, "where": where, "epr_history": done[-30:], **small})

    probing = ch.flag(1, 2, "capacity-probing")
    if probing and ch.flag(1, 2, "probe-first-window"):
        capacity_probe("first window")
    for i in range(n_ops):
        kind = EPR_KINDS_NV[ch.draw(len(EPR_KINDS_NV), "eprkind")] if nvhw else EPR_KINDS[ch.draw(len(EPR_KINDS), "eprkind")]
        n = 1 if nvhw else 1 + ch.draw(2, "eprn")
        done.append((kind, n))
        try:
            one(kind, n)
        except Violation:
            raise
        except Exception as e:  # noqa: BLE001
            msg = str(e)
            fr = traceback.extract_tb(e.__traceback__)[-1]
            if "could not find an available" in msg or "Ran out of M-registers" in msg:
                held = sorted(f"{r}@{site.get(r, '?')}" for r in mm._active_registers)
                raise Violation("compile", f"compile-fails|registers-exhausted|epr:{kind}",
                                {"after_epr_ops": len(done), "error": msg, "active_registers": held, "epr_history": done[-30:], **small})
            raise Violation("sdk", f"sdk-exception|{type(e).__name__}|{fr.name}|epr:{kind}",
                            {"error": msg[:300], "epr_history": done[-30:], **small})
        bump(probes, "epr-op")
        if mm._active_registers:
            leaked = sorted(mm._active_registers, key=str)
            sites = sorted({site.get(r, "?") for r in leaked})
            failed = None
            reps = 0
            for reps in range(1, REPEAT + 1):
                try:
                    one(kind, n)
                except Exception as e:  # noqa: BLE001
                    failed = str(e)
                    break
            if failed is not None and ("could not find an available" in failed or "Ran out of" in failed or "already active" in failed):
                raise Violation("leak", f"register-leak|epr:{kind}|{'+'.join(sites)}",
                                {"operation": (kind, n), "leaked": [str(r) for r in leaked], "allocated_at": sites,
                                 "fails_after_repetitions": reps, "error": failed[:200], "epr_history": done[-30:], **small})
            raise Discard("leak observed but repetition did not exhaust the pool")
        if (i + 1) % k_flush == 0:
            try:
                conn2.flush()
            except Violation:
                raise
            except Exception as e:  # noqa: BLE001
                fr = traceback.extract_tb(e.__traceback__)[-1]
                raise Violation("sdk", f"sdk-exception|{type(e).__name__}|{fr.name}|epr-flush",
                                {"error": str(e)[:300], "epr_history": done[-30:], **small})
            conn2.outbox.clear()
            if probing and ch.flag(1, 5, "probe-now"):
                capacity_probe(f"window after epr op {i + 1}")
    return len(done)


def _small(sample: Dict[str, Any]) -> Dict[str, Any]:
    return {"k_flush": sample["k_flush"], "program": sample["history"][-40:], "outcomes": sample["outcomes"][:8],
            "history_len": len(sample["history"])}


def cleanup() -> None:
    reset_globals()
    SimNetworkInfo.reset()
