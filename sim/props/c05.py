"""C05 -- SDK control flow and classical data flow compile to equivalent subroutines.

Two interpreters walk the same host-program AST: the SDK driver issues the real SDK
calls (compiled by the real Builder, assembled, encoded, decoded and executed by the
real controller on a trace memory with scripted measurement outcomes); the direct
evaluator executes the AST with plain Python semantics.  The scheduler owns the
measurement-outcome script, the placement of extra flushes between top-level statements
and the host/controller alternation.  At every flush: controller gate trace, array and
register contents, and every host-visible Future / RegFuture / Array must equal the
evaluator's.
"""
from __future__ import annotations

import hashlib
from typing import Any, Dict, List, Optional, Tuple

from sim.core import Choices, Discard, Sched, Trace, Violation
from sim.models.host_ref import EvalUndefined, Evaluator, HostGen
from sim.rigs.controller import ControllerNode
from sim.rigs.host import SdkDriver
from sim.stubs.backend import reset_globals
from sim.stubs.connection import SimConnection, SimNetworkInfo
from sim.stubs.qmem_trace import TraceQMem

PROP = "C05"
RUNS = {"quick": 6000, "thorough": 600000}
BUDGET_S = {"quick": 60, "thorough": 1500}
RULE = ("one run = a generated host program (<=12 top-level statements, nesting <=3: if x6 conditions x ctx/callback, loop, "
        "loop_body, foreach, enumerate, loop_until, add +-modulus, arrays with initial values, measurement into futures / "
        "array slots / registers) + a drawn measurement-outcome script + drawn flush placement, run through the real SDK "
        "and controller and through the direct evaluator; non-trivial = the program executed at least one control construct "
        "and was split over at least two flushes with a value crossing a flush; distinct = distinct (program, outcome "
        "script, flush placement) digest")
COMPONENTS = {
    "real": ["netqasm.sdk.builder.Builder, futures, qubit, memmgr, constraint, connection.flush", "lang.ir / "
             "parsing.text.assemble_subroutine", "binary codec + host messages", "QNodeController + Executor + SharedMemory"],
    "stub": ["SimConnection._commit_serialized_message", "trace quantum memory with scripted outcomes", "scheduler",
             "host-program generator and direct evaluator sim/models/host_ref.py (oracle)"],
}
ASSUMPTIONS = [
    "direct evaluator sim/models/host_ref.py is the trusted meaning of a host program",
    "generated programs only read values that are definitely defined, consume body-local qubits in the body, never "
    "destroy outer qubits inside a body, and use register futures as operands only within the flush segment that "
    "defined them",
    "vanilla flavour, generic hardware, no transpiler, Z-basis measurement only (vanilla decodes opcode 41 as mov)",
]
PROBES = ["if-taken", "if-not-taken", "loop", "loop-start-step", "foreach", "enumerate", "loop_until", "loop_until-early-exit", "loop_until-cleanup-ran", "regfuture-first-read-postponed", "add-mod",
          "regfuture", "extra-flush-inserted", "value-crosses-flush", "nested-depth-3", "array-loop-init-path"]


def uses(stmt: Any, acc: set) -> None:
    """collect register-future names referenced as operands (not as measurement targets)"""
    if isinstance(stmt, tuple):
        if stmt and stmt[0] == "regfut":
            acc.add(stmt[1])
        for x in stmt:
            uses(x, acc)
    elif isinstance(stmt, list):
        for x in stmt:
            uses(x, acc)


def defs(stmt: Any, acc: set) -> None:
    if isinstance(stmt, tuple):
        if stmt and stmt[0] == "reg":
            acc.add(stmt[1])
        for x in stmt:
            defs(x, acc)
    elif isinstance(stmt, list):
        for x in stmt:
            defs(x, acc)


def insert_flushes(prog: List[tuple], ch: Choices, num: int, den: int) -> Tuple[List[tuple], int]:
    """The scheduler places extra flushes between top-level statements, except where a
    register future defined before the gap is used after it."""
    out: List[tuple] = []
    n_ins = 0
    for i, s in enumerate(prog):
        out.append(s)
        if i == len(prog) - 1 or s[0] == "flush" or prog[i + 1][0] == "flush":
            continue
        if ch.flag(num, den, "xflush"):
            d: set = set()
            u: set = set()
            # defs since the last flush
            j = len(out) - 1
            while j >= 0 and out[j][0] != "flush":
                defs(out[j], d)
                j -= 1
            uses(prog[i + 1:], u)
            if not (d & u):
                out.append(("flush",))
                n_ins += 1
    return out, n_ins


def max_depth(stmts: List[tuple], d: int = 0) -> int:
    m = d
    for s in stmts:
        for x in s:
            if isinstance(x, list) and x and isinstance(x[0], tuple):
                m = max(m, max_depth(x, d + 1))
    return m


def compare_at_flush(node, conn, drv: SdkDriver, ev: Evaluator, qm: TraceQMem, where: str, sample: Any,
                     alt: Optional[Evaluator] = None, postpone: Any = ()) -> None:
    """`postpone`: register futures the host does not look at yet (their first read happens at a later flush)."""
    aid = conn.app_id
    # (i) gate applications
    if qm.log != ev.trace:
        n = 0
        while n < len(qm.log) and n < len(ev.trace) and qm.log[n] == ev.trace[n]:
            n += 1
        real = qm.log[n] if n < len(qm.log) else None
        model = ev.trace[n] if n < len(ev.trace) else None
        sig = "trace-mismatch"
        if alt is not None and qm.log == alt.trace:
            sig = "trace-mismatch|loop_until-exits-on-strictly-less-instead-of-at-most"
        raise Violation("trace", sig,
                        {"at": n, "real": real, "model": model, "real_tail": qm.log[max(0, n - 6):n + 4],
                         "model_tail": ev.trace[max(0, n - 6):n + 4], "where": where, **sample})
    if qm.errors:
        raise Violation("trace", "memory|" + qm.errors[0].split(" ")[0], {"errors": qm.errors[:3], **sample})
    ctrl_arrays = node.arrays(aid)
    # (iii)/(iv) arrays
    for name, arr in drv.arrays.items():
        want = ev.arrays.get(name)
        got = ctrl_arrays.get(arr.address)
        if got != want:
            raise Violation("state", "array-mismatch|controller", {"array": name, "got": got, "want": want, "where": where, **sample})
        host = arr[0:len(arr)]
        if host != want:
            raise Violation("state", "array-mismatch|host-visible", {"array": name, "host": host, "want": want, "where": where, **sample})
    for name, f in drv.futs.items():
        a, i = ev.futs.get(name, (None, None))
        want = ev.arrays[a][i] if a is not None else None
        got_arr = ctrl_arrays.get(f._address)
        got = got_arr[f._index] if got_arr is not None and isinstance(f._index, int) else None
        if got != want:
            raise Violation("state", "future-mismatch|controller", {"future": name, "got": got, "want": want, "where": where, **sample})
        hv = f.value
        if hv != want:
            prev = getattr(drv, "_prev_fut", {}).get(name, "?")
            diag = "|stale-after-rewrite" if (prev != "?" and hv == prev and prev is not None) else ""
            raise Violation("state", "future-mismatch|host-visible" + diag,
                            {"future": name, "host": hv, "want": want, "value_at_previous_flush": prev, "where": where, **sample})
    first_late = getattr(drv, "_postponed", set())
    for name, r in drv.regs.items():
        if name in postpone:
            first_late.add(name)
            continue
        want = ev.regs.get(name)
        hv = r.value
        if name in first_late and any(o is not r and str(o.reg) == str(r.reg) for o in drv.regs.values()):
            # the register was handed to a newer register future in the meantime: what the old handle then shows is
            # outside the property (it speaks of reads after each flush), so nothing is demanded here
            continue
        if hv != want:
            in_body = any(x[0] == "measure" and x[2] == ("reg", name) for st in sample["program"] for b in st
                          if isinstance(b, list) and b and isinstance(b[0], tuple) for x in _walk(b))
            if name in first_late and want is not None and not in_body:
                raise Violation("state", "regfuture-mismatch|host-visible|first-read-after-a-later-flush",
                                {"regfuture": name, "host": hv, "want": want, "reg": str(r.reg), "where": where, **sample})
            diag = "|never-measured" if want is None else ("|measured-in-body" if in_body else "")
            raise Violation("state", "regfuture-mismatch|host-visible" + diag, {"regfuture": name, "host": hv, "want": want,
                                                                         "reg": str(r.reg), "where": where, **sample})


def remember_flush(drv: SdkDriver, ev: Evaluator) -> None:
    prev = {}
    for name in drv.futs:
        a, i = ev.futs.get(name, (None, None))
        prev[name] = ev.arrays[a][i] if a is not None else None
    drv._prev_fut = prev  # type: ignore[attr-defined]
    if not hasattr(drv, "_postponed"):
        drv._postponed = set()  # type: ignore[attr-defined]


def classify_ctrl_fault(e: BaseException) -> str:
    msg = str(e)
    for key in ("is not defined", "does not have value", "not allocated", "already allocated", "outside the unit module",
                "out of range", "No array", "Modulus"):
        if key in msg:
            return key.replace(" ", "-")
    return "other"


def run(ch: Choices, opts: Dict[str, Any]) -> Dict[str, Any]:
    reset_globals()
    SimNetworkInfo.reset()
    avoid = set(opts.get("avoid", ()))
    trace = Trace()
    calm = ch.flag(1, 10, "calm")
    budget = 5 if calm else 2 + ch.draw(4, "budget")
    sched = Sched(ch, trace, mode="mix", max_cost=0 if calm else 30)
    script = [ch.draw(2, "outcome") for _ in range(24)]
    mc = {"n": 0}

    def outcome(_q):
        v = script[mc["n"] % len(script)]
        mc["n"] += 1
        return v

    qm = TraceQMem(outcome)
    node = ControllerNode("n0", 0, qm, lambda: sched.now, flavour="vanilla", with_stack=False)
    gen = HostGen(ch, max_qubits=budget, avoid=avoid, max_depth=1 if calm else 3, max_top=5 if calm else 12,
                  xflush=(0, 1) if calm else (1, 4))
    prog = gen.program()
    n_ins = gen.n_xflush
    faults: Dict[str, int] = {}
    probes: Dict[str, int] = {}

    def bump(d, k, n=1):
        d[k] = d.get(k, 0) + n

    if n_ins:
        bump(probes, "extra-flush-inserted", n_ins)
        bump(faults, "flush-placed-by-scheduler", n_ins)
    sample = {"program": prog, "outcomes": script, "budget": budget}

    ec = {"n": 0}

    def ev_outcome(_q):
        v = script[ec["n"] % len(script)]
        ec["n"] += 1
        return v

    ev = Evaluator(ev_outcome)
    ac = {"n": 0}

    def alt_outcome(_q):
        v = script[ac["n"] % len(script)]
        ac["n"] += 1
        return v

    alt = Evaluator(alt_outcome, loop_until_strict=True)
    state = {"done": False, "segments": 0}
    lazy = (not calm) and "regfuture-read-late" not in avoid and ch.flag(1, 3, "lazy")

    def host_task():
        conn = SimConnection("app", node, max_qubits=budget)
        drv = SdkDriver(conn)
        if not calm:
            # the stub controller finishes every subroutine before the host goes on either way; what differs is the SDK path
            drv.flush_block = lambda: not ch.flag(1, 4, "flush-nonblocking")
        for i, s in enumerate(prog):
            try:
                drv.exec(s)
            except Violation:
                raise
            except Exception as e:  # noqa: BLE001 -- the SDK refused / crashed on a valid program
                import traceback as tb
                fr = tb.extract_tb(e.__traceback__)[-1]
                raise Violation("sdk", f"sdk-exception|{type(e).__name__}|{fr.name}|{s[0]}",
                                {"stmt": s, "error": str(e)[:300], **sample})
            try:
                ev.exec(s)
                try:
                    alt.exec(s)
                except Exception:  # noqa: BLE001
                    pass
            except EvalUndefined as u:
                raise RuntimeError(f"generator produced a read of an undefined value: {u}; stmt {s}")
            trace.add("stmt", i, s[0])
            if s[0] == "flush":
                g = conn.drain()
                while True:
                    try:
                        y = next(g)
                    except StopIteration:
                        break
                    except Violation:
                        raise
                    except Exception as e:  # noqa: BLE001 -- controller fault on an SDK-emitted subroutine
                        raise Violation("controller", f"controller-fault|{type(e).__name__}|{classify_ctrl_fault(e)}",
                                        {"error": str(e)[:400], "subroutine": _last_sub(conn), **sample})
                    yield y
                state["segments"] += 1
                # a lazy host does not look at every register future right after its own flush
                postpone = set()
                if lazy and i < len(prog) - 1:
                    seen = getattr(drv, "_seen_regs", set())
                    for name in drv.regs:
                        if name not in seen and ch.flag(1, 2, "postpone"):
                            postpone.add(name)
                    drv._seen_regs = seen | (set(drv.regs) - postpone)  # type: ignore[attr-defined]
                    if postpone:
                        bump(probes, "regfuture-first-read-postponed")
                if not hasattr(drv, "_postponed"):
                    drv._postponed = set()  # type: ignore[attr-defined]
                compare_at_flush(node, conn, drv, ev, qm, f"flush#{state['segments']}", sample, alt, postpone)
                remember_flush(drv, ev)
            yield None
        conn.close()
        for _ in conn.drain():
            pass
        state["done"] = True

    sched.spawn("host", host_task(), party="host")
    cap = 60000
    while not state["done"]:
        if sched.step() is None:
            raise RuntimeError("host task blocked")
        if sched.steps > cap:
            raise Discard("step cap")

    for k, v in ev.stats.items():
        bump(probes, k, v)
    # reach probes from the evaluator's view of the program
    kinds = gen.kinds
    for k in ("loop", "loop-start-step", "foreach", "enumerate", "loop_until"):
        if k in kinds:
            bump(probes, k)
    if "add" in kinds and any(s[0] == "add" and s[3] is not None for s in _walk(prog)):
        bump(probes, "add-mod")
    if any(s[0] == "measure" and s[2][0] == "reg" for s in _walk(prog)):
        bump(probes, "regfuture")
    if any(s[0] == "array" and len(s[2]) > 1 and s[2][0] is not None and s[2].count(s[2][0]) == len(s[2]) for s in _walk(prog)):
        bump(probes, "array-loop-init-path")
    d = max_depth(prog)
    if d >= 3:
        bump(probes, "nested-depth-3")
    crossing = _value_crosses_flush(prog)
    if crossing:
        bump(probes, "value-crosses-flush")
    has_ctl = any(s[0] in ("if", "loop", "foreach", "enumerate", "loop_until") for s in _walk(prog))
    nontrivial = has_ctl and state["segments"] >= 2 and crossing
    h = hashlib.blake2b(repr((prog, script)).encode(), digest_size=10).hexdigest()
    return {
        "digest": trace.digest() + h[:8], "fingerprint": h, "nontrivial": bool(nontrivial),
        "events": sched.steps, "sim_ns": sched.now, "faults": faults, "probes": probes, "calm": calm,
        "sample": {"program": prog, "outcomes": script[:8], "budget": budget, "segments": state["segments"],
                   "controller_trace_head": [list(map(str, e)) for e in qm.log[:30]]},
    }


def _walk(stmts: List[tuple]):
    for s in stmts:
        yield s
        for x in s:
            if isinstance(x, list) and x and isinstance(x[0], tuple):
                yield from _walk(x)


def _value_crosses_flush(prog: List[tuple]) -> bool:
    """a future / array element written in one flush segment and read (operand) in a later one"""
    written: set = set()
    seg_written: set = set()
    for s in prog:
        if s[0] == "flush":
            written |= seg_written
            seg_written = set()
            continue
        for x in _walk([s]):
            if x[0] == "measure" and x[2][0] in ("new", "arr"):
                seg_written.add(x[2][1])
            if x[0] == "array":
                seg_written.add(x[1])
        rd: set = set()
        _reads(s, rd)
        if rd & written:
            return True
    return False


def _reads(x: Any, acc: set) -> None:
    if isinstance(x, tuple):
        if x and x[0] in ("fut", "arrfut"):
            acc.add(x[1])
        for y in x:
            _reads(y, acc)
    elif isinstance(x, list):
        for y in x:
            _reads(y, acc)


def _last_sub(conn) -> str:
    from netqasm.backend.messages import MessageType
    from netqasm.lang.parsing import deserialize
    for raw in reversed(conn.sent):
        if raw[0] == MessageType.SUBROUTINE.value:
            try:
                return str(deserialize(raw[1:]))[:3000]
            except Exception as e:  # noqa: BLE001
                return f"<undecodable: {e}>"
    return ""


def cleanup() -> None:
    reset_globals()
    SimNetworkInfo.reset()
