"""C18 -- Thread sockets deliver every message once and in order under any schedule.

Real code: _SocketHub, ThreadSocket (constructor/rendezvous, send, recv, structured and
silent variants, callbacks, connected, __del__ = disconnect), ThreadBroadcastChannel.
Each endpoint program runs in a real thread that only moves while it holds the
scheduler's baton; every source line inside the hub / socket / broadcast modules is a
pre-emption point where the seeded choice stream may hand the baton to another thread.
sleep / timer / Lock of those modules are virtual.  Oracle over the recorded history.
"""
from __future__ import annotations

import os
import gc
import hashlib
import sys
import threading
import weakref
from typing import Any, Dict, List, Optional, Tuple

from sim.core import Choices, Discard, Trace, Violation
from sim.stubs.threads import Deadlock, StepCapHit, ThreadSched

PROP = "C18"
RUNS = {"quick": 2500, "thorough": 400000}
BUDGET_S = {"quick": 60, "thorough": 1500}
RULE = ("one run = 2-3 endpoint threads (socket pairs on socket ids 0/1, or a 3-party broadcast channel), <=4 operations "
        "each after connecting (send / recv blocking with timeout / non-blocking, structured, silent, callback delivery, "
        "drop = disconnect at a drawn point, re-connection, non-blocking broadcast polls, receives with a time-out short "
        "enough to expire, an impatient first connect attempt -- held apart from or racing with the peer's arrival), executed under a seeded schedule with pre-emption at every source line of "
        "the hub and socket modules; non-trivial = at least two messages were in flight on one channel at some moment, or "
        "a disconnect / non-blocking receive raced with a send (overlapping invoke/return intervals); distinct = distinct "
        "schedule fingerprint + scenario digest")
COMPONENTS = {
    "real": ["thread_socket.socket_hub._SocketHub (connect, _wait_for_remote, disconnect, send, recv, callbacks)",
             "thread_socket.socket.ThreadSocket (constructor, send/recv + structured/silent, connected, __del__)",
             "classical_communication.broadcast_channel.BroadcastChannelBySockets / ThreadBroadcastChannel"],
    "stub": ["baton-passing thread scheduler with sys.settrace line pre-emption", "virtual sleep/timer and scheduler-owned "
             "Lock patched into socket_hub / broadcast_channel", "endpoint programs (deadlock-free by construction)"],
}
ASSUMPTIONS = [
    "pre-emption at source-line granularity inside the three modules (CPython's GIL makes single bytecodes atomic)",
    "endpoint programs are projections of one sequential script, so every blocking receive has its send earlier in a "
    "feasible order; blocking receives carry generous virtual timeouts",
    "socket keys are not reused within a run (the hub keeps undelivered messages per key by design)",
]
PROBES = ["reconnect", "late-finaliser", "two-in-flight", "send-races-disconnect", "nonblocking-recv-empty", "nonblocking-recv-got", "callback-delivery",
          "structured", "silent", "broadcast", "broadcast-poll", "three-endpoints", "two-socket-ids", "connection-error-after-disconnect",
          "recv-timeout", "lock-contended", "stalled-thread", "late-starter", "connect-timeout-then-retry", "connect-attempt-races-with-peer",
          "broadcast-endpoint-leaves-before-the-others-have-received", "communication-log-enabled",
          "poll-inside-connection-lost-callback", "empty-message"]

_mods: Dict[str, Any] = {}


def _load():
    if not _mods:
        import netqasm.sdk.classical_communication.broadcast_channel as bc
        import netqasm.sdk.classical_communication.thread_socket.broadcast_channel as tbc
        import netqasm.sdk.classical_communication.thread_socket.socket as ts
        import netqasm.sdk.classical_communication.thread_socket.socket_hub as sh
        from netqasm.sdk.classical_communication.message import StructuredMessage
        _mods.update(bc=bc, tbc=tbc, ts=ts, sh=sh, SM=StructuredMessage,
                     orig=(sh.sleep, sh.timer, sh.Lock, bc.timer))
    return _mods


def gen_scenario(ch: Choices, calm: bool, no_cb_reconnect: bool = False, tier: str = "quick", avoid: Any = ()) -> Dict[str, Any]:
    deep = (not calm) and tier == "thorough" and ch.flag(1, 2, "deep")   # deeper bounds in half of the thorough runs
    n_ep = 2 if calm else 2 + ch.draw(2, "nep")
    if (not calm) and "connect-race" not in avoid and ch.flag(1, 6, "race"):
        # an impatient connect attempt that RACES with the peer's arrival: the peer may connect to (and send through) the
        # attempt just before it gives up; whatever happens, the second attempt must receive every message once, in order
        return {"names": ["a", "b"], "broadcast": False, "race": True, "n_msgs": 1 + ch.draw(3, "racemsgs"), "race_hold": ch.draw(5, "racehold"),
                "script": [("race",)], "chans": [], "callback": {}}
    names = ["a", "b", "c"][:n_ep]
    broadcast = (n_ep == 3) and ch.flag(1, 3, "bcast")
    script: List[tuple] = []
    chans: List[Tuple[str, str, int]] = []
    callback: Dict[Tuple[str, str, int], bool] = {}
    if broadcast:
        for _ in range(2 + ch.draw(4, "nb")):
            s = names[ch.draw(3, "bs")]
            script.append(("bsend", s))
        # receives: each endpoint tries to receive some of what was sent to it
        pending = {x: 0 for x in names}
        out: List[tuple] = []
        for ev in script:
            out.append(ev)
            for x in names:
                if x != ev[1]:
                    pending[x] += 1
            for x in names:
                if pending[x] and ch.flag(1, 2, "brecv"):
                    out.append(("brecv", x))
                    pending[x] -= 1
        # non-blocking receives come after an endpoint's other operations: a poll may take any message ever sent to its
        # endpoint (threads are not bound to the script order), so one placed earlier could starve a blocking receive
        if "broadcast-poll" not in avoid:
            for x in names:
                for _ in range(ch.draw(3, "npoll")):
                    out.append(("bpoll", x))
        script = out
        return {"names": names, "broadcast": True, "script": script, "chans": [], "callback": {},
                "early_leave": ch.flag(1, 2, "early-leave")}
    pairs = [(names[i], names[j]) for i in range(n_ep) for j in range(i + 1, n_ep)]
    n_ch = 1 + ch.draw(4 if deep else 2, "nch")
    for _ in range(n_ch):
        x, y = pairs[ch.draw(len(pairs), "pair")]
        sid = ch.draw(2, "sid")
        if (x, y, sid) not in chans:
            chans.append((x, y, sid))
    for (x, y, sid) in chans:
        for (r, s) in ((x, y), (y, x)):
            callback[(s, r, sid)] = (not calm) and ch.flag(1, 5, "cb")   # receiver r of direction s->r uses callbacks
    impatient = set()
    if not calm and "connect-timeout-retry" not in avoid:
        for (x, y, sid) in chans:
            if not (callback[(x, y, sid)] or callback[(y, x, sid)]) and ch.flag(1, 6, "impatient"):
                impatient.add((x, y, sid) if ch.flag(1, 2, "impwho") else (y, x, sid))
    budget = {n: (10 if deep else 4) for n in names}
    inflight: Dict[Tuple[str, str, int], int] = {}
    dropped: set = set()
    reconnects: List[tuple] = []
    kind_of: Dict[Tuple[str, str, int], str] = {}
    for (x, y, sid) in chans:
        for d in ((x, y, sid), (y, x, sid)):
            kind_of[d] = ch.pick(["plain", "plain", "structured", "silent"])
    n_ev = 2 + ch.draw(24 if deep else 8, "nev")
    for _ in range(n_ev):
        x, y, sid = chans[ch.draw(len(chans), "ch")]
        if ch.flag(1, 2, "dir"):
            x, y = y, x
        k = ch.weighted([5, 4, 2, 1, 0 if calm else 1], "ev")
        d = (x, y, sid)
        if k == 0 and budget[x] > 0 and (x, y, sid) not in dropped:
            script.append(("send", x, y, sid, kind_of[d], (not calm) and ch.flag(1, 4, "eof-payload")))
            budget[x] -= 1
            inflight[d] = inflight.get(d, 0) + 1
        elif k == 1 and budget[y] > 0 and not callback[d] and (y, x, sid) not in dropped:
            if inflight.get(d, 0) > 0:
                mode = ch.pick(["block", "block", "nonblock"])
                script.append(("recv", y, x, sid, mode, kind_of[d]))
                inflight[d] -= 1
                budget[y] -= 1
        elif k == 2 and budget[y] > 0 and not callback[d] and (y, x, sid) not in dropped:
            # a receive that may find nothing: non-blocking, or blocking with a time-out short enough to expire
            script.append(("recv", y, x, sid, "nonblock" if calm else ch.pick(["nonblock", "nonblock", "timed"]), kind_of[d]))
            budget[y] -= 1
        elif k == 3 and not calm and (x, y, sid) not in dropped and not reconnects:
            script.append(("drop", x, y, sid))
            dropped.add((x, y, sid))     # x's end of the channel is gone: x does nothing more on it
        elif k == 4 and not dropped and budget[x] > 0 and not (no_cb_reconnect and (callback[(x, y, sid)] or callback[(y, x, sid)])):
            # x drops its socket and at once creates a new one with the same names and id (the peer stays)
            script.append(("reconnect", x, y, sid))
            budget[x] -= 1
            reconnects.append((x, y, sid))
    return {"names": names, "broadcast": False, "script": script, "chans": chans, "callback": callback,
            "reconnect": bool(reconnects), "impatient": sorted(impatient), "commlog": (not calm) and ch.flag(1, 4, "commlog"),
            "storage_cb": any(callback.values()) and ch.flag(1, 2, "storagecb"),
            # a callback endpoint reacts to "connection lost" by looking once more into its channel (non-blocking receive)
            "lost_polls": any(callback.values()) and (not calm) and "poll-in-lost-callback" not in avoid and ch.flag(1, 3, "lostpolls")}


def run(ch: Choices, opts: Dict[str, Any]) -> Dict[str, Any]:
    m = _load()
    sh, ts, bc, tbc, SM = m["sh"], m["ts"], m["bc"], m["tbc"], m["SM"]
    trace = Trace()
    calm = ch.flag(1, 10, "calm")
    sc = gen_scenario(ch, calm, no_cb_reconnect="reconnect-with-callbacks" in opts.get("avoid", ()), tier=opts.get("tier", "quick"), avoid=opts.get("avoid", ()))
    if "script" in sc and not calm:
        sc["empty_payload"] = ch.flag(1, 4, "empty-payload")      # one of the run's messages is the empty string
    names = sc["names"]
    sw = (1, 1) if calm else ch.pick([(1, 2), (1, 6), (1, 20)])
    files = [sh.__file__, ts.__file__, bc.__file__]
    sched = ThreadSched(ch, trace, files, switch_num=sw[0], switch_den=sw[1], max_points=int(os.environ.get("C18_MAX_POINTS", "25000")))
    faults: Dict[str, int] = {}
    probes: Dict[str, int] = {}

    def bump(d, k, n=1):
        d[k] = d.get(k, 0) + n

    if len(names) == 3:
        bump(probes, "three-endpoints")
    if sc["broadcast"]:
        bump(probes, "broadcast")
    if sc.get("reconnect"):
        bump(probes, "reconnect")
        bump(faults, "endpoint-reconnects-while-peer-stays")
    if len({c[2] for c in sc["chans"]}) == 2:
        bump(probes, "two-socket-ids")
    # a thread that freezes at a drawn point of its own execution (after its k-th source line inside the three modules)
    if not calm and ch.flag(1, 2 if sc.get("race") else 5, "freeze"):
        who = "a" if sc.get("race") else names[ch.draw(len(names), "freezewho")]
        sched.stall_at[who] = (1 + ch.draw(160, "freezeat"), 20 + ch.draw(200, "freezelen"))
        bump(faults, "thread-frozen-at-a-drawn-line")
    # ... or a few lines after waking up from its k-th sleep (the connect / receive polling loops look, then decide)
    if not calm and ch.flag(1, 2 if sc.get("race") else 6, "freeze-after-sleep"):
        who = "a" if sc.get("race") else names[ch.draw(len(names), "fswho")]
        sched.freeze_after_sleep[who] = (1 + ch.draw(4, "fsk"), 1 + ch.draw(10, "fslines"), 20 + ch.draw(200, "fslen"))
        bump(faults, "thread-frozen-after-a-sleep")
    # a stalled thread: not schedulable for a stretch of pre-emption points
    if not calm and ch.flag(1, 4, "stall"):
        who = names[ch.draw(len(names), "stallwho")]
        sched.stall[who] = ch.draw(400, "stalllen")
        bump(faults, "stalled-thread")
        bump(probes, "stalled-thread")
    if not calm and ch.flag(1, 3, "late"):
        who = names[ch.draw(len(names), "latewho")]
        sched.stall[who] = max(sched.stall.get(who, 0), 50 + ch.draw(300, "latelen"))
        bump(probes, "late-starter")
        bump(faults, "endpoint-starts-late")

    # patch the seams and rebuild the hub with the simulated lock
    sh.sleep, sh.timer, sh.Lock = sched.sleep, sched.timer, sched.lock_factory
    bc.timer = sched.timer
    sh.reset_socket_hub()
    hub = sh._socket_hub
    if sc.get("race"):
        class _RecSet(set):
            # observation only: when did a key become visible as open?
            def add(self, key):
                race_info.setdefault("opened", []).append((sched.points, key))
                super().add(key)
        hub._open_sockets = _RecSet(hub._open_sockets)
    old_hook = sys.unraisablehook
    sys.unraisablehook = lambda *a: None

    hist: List[Dict[str, Any]] = []
    cb_log: Dict[Tuple[str, str, int], List[Tuple[int, str]]] = {}
    lost_log: List[Tuple[int, str]] = []
    payload_ctr = [0]
    empty_used = [False]
    drained: Dict[Tuple[str, str, int], List[Any]] = {}
    done_ctr = [0]
    bsent_ctr = [0]
    sample = {"endpoints": names, "broadcast": sc["broadcast"], "script": sc["script"],
              "callback_receivers": [list(k) for k, v in sc["callback"].items() if v], "switch": sw}

    created: List[Any] = []
    # the classical-communication log (an in-memory list unless saved) switches the logging wrappers of send / recv on
    logkw: Dict[str, Any] = {}
    if sc.get("commlog"):
        from netqasm.sdk.config import LogConfig
        logkw = {"log_config": LogConfig(comm_log_dir="/nonexistent/c18-comm-log")}
        bump(probes, "communication-log-enabled")
    tries_done = [0]
    race_done = [False]
    race_info: Dict[str, Any] = {}

    late: List[tuple] = []

    class TSock(ts.ThreadSocket):
        def __init__(self, *a, **kw):
            created.append(weakref.ref(self))
            self._sim_owner = threading.current_thread().name
            super().__init__(*a, **kw)

        def __del__(self):
            # observation only: did the finaliser run on a foreign thread (kept alive by a peer's frame)?
            if threading.current_thread().name != getattr(self, "_sim_owner", None):
                late.append((getattr(self, "_app_name", "?"), threading.current_thread().name, sched.points))
            super().__del__()

    class TBcast(tbc.ThreadBroadcastChannel):
        _socket_class = TSock

    def _poll_when_lost(sock) -> None:
        """What an application may do in its connection-lost handler: one non-blocking look into the channel.  It must
        report emptiness (or hand out a queued message), not block."""
        if not sc.get("lost_polls"):
            return
        cur = sched.current
        if cur is None or threading.current_thread() is not cur.thread:
            return      # a finaliser running outside the schedule (tear-down): nothing there is bounded by the scheduler
        bump(probes, "poll-inside-connection-lost-callback")
        try:
            m = sock.recv(block=False)
        except RuntimeError:
            return
        # a message that was waiting in the queue of a callback endpoint (sent while the endpoint was between two
        # sockets): for the once / order oracles it stays what it was before the poll took it out -- queued, not delivered
        drained.setdefault(sock.key, []).append(m)        # (the hub's own key of the receiving socket)

    class RecSocket(TSock):
        def recv_callback(self, msg):
            cb_log.setdefault((self.remote_app_name, self.app_name, self.id), []).append((sched.points, msg))

        def conn_lost_callback(self):
            lost_log.append((sched.points, self.app_name))
            _poll_when_lost(self)

    class StoreSock(ts.StorageThreadSocket):
        """the repository's own callback endpoint (stores what comes in), observed the same way"""

        def __init__(self, *a, **kw):
            created.append(weakref.ref(self))
            self._sim_owner = threading.current_thread().name
            kw.pop("use_callbacks", None)
            super().__init__(*a, **kw)

        def recv_callback(self, msg):
            super().recv_callback(msg)
            cb_log.setdefault((self.remote_app_name, self.app_name, self.id), []).append((sched.points, msg))

        def conn_lost_callback(self):
            lost_log.append((sched.points, self.app_name))
            _poll_when_lost(self)

        def __del__(self):
            if threading.current_thread().name != getattr(self, "_sim_owner", None):
                late.append((getattr(self, "_app_name", "?"), threading.current_thread().name, sched.points))
            super().__del__()

    CbSock = StoreSock if sc.get("storage_cb") else RecSocket

    def record(th: str, op: tuple):
        e = {"thread": th, "op": op, "invoke": sched.points, "ret": None, "out": None, "exc": None}
        hist.append(e)
        return e

    def finish(e, out=None, exc=None):
        sched.progress()
        e["ret"] = sched.points
        e["out"] = out
        e["exc"] = exc
        trace.add(e["thread"], e["op"][0], e["invoke"], e["ret"], str(out)[:20], exc)

    def endpoint(me: str):
        def body():
            socks: Dict[Tuple[str, int], Any] = {}
            if sc.get("race"):
                if me == "a":
                    s0 = None
                    e0 = record(me, ("connect_try", "b", 0))
                    try:
                        s0 = TSock("a", "b", socket_id=0, timeout=0.25)
                        finish(e0, "ok")
                    except TimeoutError:
                        race_info["a_last_wake_before_timeout"] = [t for t in sched.threads if t.name == "a"][0].last_wake_point
                        finish(e0, "timed-out")
                        bump(faults, "connect-attempt-timed-out")
                    except Exception as x:  # noqa: BLE001
                        finish(e0, exc=type(x).__name__)
                        return
                    gc.collect()
                    if s0 is None:
                        e0 = record(me, ("connect", "b", 0, False))
                        try:
                            s0 = TSock("a", "b", socket_id=0, timeout=120.0)
                            finish(e0, "ok")
                        except Exception as x:  # noqa: BLE001
                            finish(e0, exc=type(x).__name__)
                            race_done[0] = True
                            return
                    for _ in range(sc["n_msgs"]):
                        e0 = record(me, ("recv", "b", 0, "block"))
                        try:
                            finish(e0, s0.recv(block=True, timeout=60.0))
                        except Exception as x:  # noqa: BLE001
                            finish(e0, exc=type(x).__name__)
                    race_done[0] = True
                    s0 = None
                else:
                    # the peer turns up while the impatient side is in its k-th poll interval (k drawn; 0 = at once)
                    ath = [t for t in sched.threads if t.name == "a"]
                    while ath and ath[0].sleeps < sc["race_hold"] and ath[0].state != "done" and not race_done[0]:
                        sched.sleep(0.01)
                    e0 = record(me, ("connect", "a", 0, False))
                    try:
                        s1 = TSock("b", "a", socket_id=0, timeout=120.0)
                        finish(e0, "ok")
                    except Exception as x:  # noqa: BLE001
                        finish(e0, exc=type(x).__name__)
                        return
                    for i in range(sc["n_msgs"]):
                        while True:
                            e0 = record(me, ("send", "a", 0, "plain", f"m{i + 1}"))
                            try:
                                s1.send(f"m{i + 1}")
                                finish(e0, "ok")
                                break
                            except ConnectionError:
                                # the other side gave up and has not come back yet: legitimate, try again a little later
                                finish(e0, exc="ConnectionError")
                                if race_done[0]:
                                    break
                                sched.sleep(0.05)
                        if race_done[0]:
                            break
                    while not race_done[0]:
                        sched.sleep(0.05)
                    s1 = None
                return
            if sc["broadcast"]:
                e = record(me, ("bconnect",))
                try:
                    chan = TBcast(me, [x for x in names if x != me], timeout=120.0)
                    finish(e, "ok")
                except Exception as x:  # noqa: BLE001
                    finish(e, exc=type(x).__name__)
                    return
                for ev in sc["script"]:
                    if ev[1] != me:
                        continue
                    if ev[0] == "bsend":
                        payload_ctr[0] += 1
                        p = f"m{payload_ctr[0]}"
                        if sc.get("empty_payload") and not empty_used[0]:
                            empty_used[0] = True
                            p = ""            # an empty message is a message
                            bump(probes, "empty-message")
                        e = record(me, ("bsend", p))
                        try:
                            chan.send(p)
                            finish(e, "ok")
                        except Exception as x:  # noqa: BLE001
                            finish(e, exc=type(x).__name__)
                        bsent_ctr[0] += 1
                    elif ev[0] == "bpoll":
                        e = record(me, ("bpoll",))
                        try:
                            r = chan.recv(block=False)
                            finish(e, r)
                        except RuntimeError:
                            finish(e, "empty")
                        except Exception as x:  # noqa: BLE001
                            finish(e, exc=type(x).__name__)
                    else:
                        e = record(me, ("brecv",))
                        try:
                            r = chan.recv(block=True, timeout=60.0)
                            finish(e, r)
                        except Exception as x:  # noqa: BLE001
                            finish(e, exc=type(x).__name__)
                # nobody leaves before every broadcast has been sent (a broadcast to a departed peer fails half-way by
                # design); in half of the runs an endpoint may leave as soon as that is the case, while the others are
                # still receiving what is queued for them -- otherwise everybody waits for everybody
                done_ctr[0] += 1
                n_bsend = sum(1 for ev2 in sc["script"] if ev2[0] == "bsend")
                if sc.get("early_leave"):
                    while bsent_ctr[0] < n_bsend:
                        sched.sleep(0.05)
                    if done_ctr[0] < len(names):
                        bump(probes, "broadcast-endpoint-leaves-before-the-others-have-received")
                else:
                    while done_ctr[0] < len(names):
                        sched.sleep(0.05)
                e = record(me, ("bdrop",))
                chan._sockets.clear()
                del chan
                finish(e, "ok")
                return
            mine = [(x, y, sid) for (x, y, sid) in sc["chans"] if me in (x, y)]
            order = list(mine)
            # phase 0 (injected fault: the peer is not there yet): impatient endpoints try to connect with a quarter-second
            # time-out while every other endpoint is still held back, give up, and only then does the scenario proper start
            for (x0, y0, sid0) in sc.get("impatient", ()):
                if x0 != me:
                    continue
                e0 = record(me, ("connect_try", y0, sid0))
                try:
                    tmp = TSock(me, y0, socket_id=sid0, timeout=0.25)
                    del tmp
                    finish(e0, exc="connected-to-an-absent-peer")
                except TimeoutError:
                    finish(e0, "timed-out")
                    bump(faults, "connect-attempt-timed-out")
                    bump(probes, "connect-timeout-then-retry")
                except Exception as x2:  # noqa: BLE001
                    finish(e0, exc=type(x2).__name__)
                gc.collect()
            tries_done[0] += 1
            while tries_done[0] < len(names):
                sched.sleep(0.05)
            for (x, y, sid) in order:
                peer = y if me == x else x
                usecb = sc["callback"].get((peer, me, sid), False)
                e = record(me, ("connect", peer, sid, usecb))
                try:
                    cls = CbSock if usecb else TSock
                    socks[(peer, sid)] = cls(me, peer, socket_id=sid, timeout=120.0, use_callbacks=usecb, **logkw)
                    finish(e, "ok")
                except Exception as x2:  # noqa: BLE001
                    finish(e, exc=type(x2).__name__)
            for ev in sc["script"]:
                if ev[1] != me:
                    continue
                k = ev[0]
                peer, sid = ev[2], ev[3]
                s = socks.get((peer, sid))
                if s is None:
                    continue
                if k == "send":
                    payload_ctr[0] += 1
                    p = f"m{payload_ctr[0]}" + (" EOF" if len(ev) > 5 and ev[5] else "")   # (the logging wrappers treat EOF specially)
                    if sc.get("empty_payload") and not empty_used[0] and ev[4] == "plain":
                        empty_used[0] = True
                        p = ""            # an empty message is a message
                        bump(probes, "empty-message")
                    e = record(me, ("send", peer, sid, ev[4], p))
                    try:
                        if ev[4] == "structured":
                            s.send_structured(SM(header="h", payload=p))
                        elif ev[4] == "silent":
                            s.send_silent(p)
                        else:
                            s.send(p)
                        finish(e, "ok")
                    except Exception as x2:  # noqa: BLE001
                        finish(e, exc=type(x2).__name__)
                elif k == "recv":
                    mode = ev[4]
                    e = record(me, ("recv", peer, sid, mode))
                    try:
                        fn = {"plain": s.recv, "structured": s.recv_structured, "silent": s.recv_silent}[ev[5]]
                        if mode == "nonblock":
                            r = fn(block=False)
                        elif mode == "timed":
                            r = fn(block=True, timeout=0.25)
                        else:
                            r = fn(block=True, timeout=5.0)
                        fn = None
                        finish(e, r.payload if hasattr(r, "payload") else _payload(r))
                    except Exception as x2:  # noqa: BLE001
                        fn = None
                        finish(e, exc=type(x2).__name__)
                    x2 = None
                elif k == "reconnect":
                    usecb = sc["callback"].get((peer, me, sid), False)
                    e = record(me, ("drop", peer, sid))
                    socks.pop((peer, sid))
                    s = None
                    finish(e, "ok")
                    e = record(me, ("connect", peer, sid, usecb))
                    try:
                        cls = CbSock if usecb else TSock
                        socks[(peer, sid)] = cls(me, peer, socket_id=sid, timeout=120.0, use_callbacks=usecb)
                        finish(e, "ok")
                    except Exception as x2:  # noqa: BLE001
                        finish(e, exc=type(x2).__name__)
                    x2 = None
                elif k == "drop":
                    e = record(me, ("drop", peer, sid))
                    socks.pop((peer, sid))   # last reference: __del__ -> disconnect runs here, traced
                    s = None
                    finish(e, "ok")
            s = None
            fn = None
            if sc.get("reconnect"):
                # with re-connections in the script nobody leaves before everybody is done
                done_ctr[0] += 1
                while done_ctr[0] < len(names):
                    sched.sleep(0.05)
            for key in list(socks):
                e = record(me, ("drop", key[0], key[1]))
                socks.pop(key)
                finish(e, "ok")
        return body

    err: Optional[BaseException] = None
    try:
        for nme in names:
            sched.spawn(nme, endpoint(nme))
        sched.run()
    except (Deadlock, StepCapHit) as x:
        err = x
    finally:
        leftover = {k: list(v) for k, v in hub._messages.items() if v}
        for k_d, v_d in drained.items():
            leftover[k_d] = list(v_d) + leftover.get(k_d, [])
        # sockets that outlive the run (aborted threads, reference cycles) must never reach the process-global hub
        # from a later run: point them at a dummy hub, drop tracebacks, and collect now
        for t in sched.threads:
            if t.error is not None:
                t.error = type(t.error)(str(t.error)[:200]) if not isinstance(t.error, SystemExit) else SystemExit()
        for w in created:
            o = w()
            if o is not None:
                o.__dict__["_SOCKET_HUB"] = _DummyHub()
        o = None
        gc.collect()
        sh.sleep, sh.timer, sh.Lock, bc.timer = m["orig"]
        sh.reset_socket_hub()
        sys.unraisablehook = old_hook
    for k2, v in sched.counters.items():
        if k2 == "lock-contended":
            bump(probes, "lock-contended", v)
            bump(faults, "lock-handover-under-contention", v)
    bump(faults, "preemptions", sched.switches)
    detail = {"history": [{k2: (list(v) if isinstance(v, tuple) else v) for k2, v in e.items()} for e in hist][:80], **sample}
    def _judge() -> Dict[str, Any]:
        if isinstance(err, Deadlock):
            raise Violation("liveness", "liveness|deadlock", {"threads": str(err), **detail})
        if isinstance(err, StepCapHit):
            raise Violation("liveness", "liveness|no-progress-within-step-cap", detail)
        for t in sched.threads:
            if t.error is not None and not isinstance(t.error, SystemExit):
                raise Violation("harness-thread", f"thread-died|{type(t.error).__name__}", {"thread": t.name, "error": repr(t.error)[:300], **detail})

        # ---------------- oracle over the history ----------------------------------------
        nontrivial = False
        for e in hist:
            if e["op"][0] in ("connect", "bconnect") and e["exc"] is not None:
                raise Violation("rendezvous", f"rendezvous|{e['exc']}", {"op": e, **detail})
        if sc.get("race"):
            bump(probes, "connect-attempt-races-with-peer")
            sent = [e["op"][4] for e in hist if e["thread"] == "b" and e["op"][0] == "send" and e["exc"] is None]
            got = [_payload(e["out"]) for e in hist if e["thread"] == "a" and e["op"][0] == "recv" and e["exc"] is None]
            bad = [e for e in hist if e["exc"] is not None and not (e["op"][0] == "send" and e["exc"] == "ConnectionError")]
            left = [_payload(v) for v in leftover.get(("a", "b", 0), [])]
            if got != sent[:len(got)] or got + left != sent or bad:
                raise Violation("once", "once|connect-race|second-attempt-did-not-receive-what-was-sent",
                                {"sent": sent, "received": got, "queued": left, "failed": bad[:3], **detail})
            timed_out = any(e["op"][0] == "connect_try" and e["out"] == "timed-out" for e in hist)
            b_open = [pt for (pt, key) in race_info.get("opened", []) if key[0] == "b"]
            wake = race_info.get("a_last_wake_before_timeout")
            if timed_out and b_open and wake is not None and b_open[0] < wake:
                # after every wake-up the polling loop looks for the peer before it looks at the clock: a peer that was
                # visible before the attempt's last wake-up must have been found
                raise Violation("rendezvous", "rendezvous|attempt-timed-out-although-the-peer-was-visible-before-its-last-look",
                                {"peer_visible_at": b_open[0], "last_wake_up_at": wake, **detail})
            if timed_out and sent:
                nontrivial = True
        elif sc["broadcast"]:
            sends = [e for e in hist if e["op"][0] == "bsend" and e["exc"] is None]
            for x in names:
                got = [e["out"] for e in hist if e["thread"] == x and e["exc"] is None
                       and (e["op"][0] == "brecv" or (e["op"][0] == "bpoll" and e["out"] != "empty"))]
                # a non-blocking receive may say "nothing there" only if that can be true: not while a message whose
                # send had already returned is still unreceived
                n_recv = 0
                for e in hist:
                    if e["thread"] != x or e["exc"] is not None:
                        continue
                    if e["op"][0] == "brecv" or (e["op"][0] == "bpoll" and e["out"] != "empty"):
                        n_recv += 1
                    elif e["op"][0] == "bpoll":
                        surely_sent = sum(1 for s2 in sends if s2["thread"] != x and s2["ret"] is not None and s2["ret"] < e["invoke"])
                        bump(probes, "broadcast-poll")
                        if surely_sent > n_recv:
                            raise Violation("empty", "empty|broadcast-poll-reports-nothing-while-a-message-waits",
                                            {"receiver": x, "poll": e, "sent_before": surely_sent, "received_before": n_recv, **detail})
                for s_name in names:
                    if s_name == x:
                        continue
                    sent = [e["op"][1] for e in sends if e["thread"] == s_name]
                    recvd = [g[1] for g in got if g[0] == s_name]
                    if recvd != sent[:len(recvd)]:
                        raise Violation("order", "order|broadcast|not-a-prefix-of-sent", {"sender": s_name, "receiver": x,
                                                                                        "sent": sent, "received": recvd, **detail})
                    left = leftover.get((x, s_name, 0), [])
                    if recvd + left != sent:
                        raise Violation("once", "once|broadcast|received+queued-differs-from-sent",
                                        {"sender": s_name, "receiver": x, "sent": sent, "received": recvd, "queued": left, **detail})
                for e in hist:
                    if e["thread"] == x and e["op"][0] == "brecv" and e["exc"] == "TimeoutError":
                        raise Violation("liveness", "liveness|broadcast-recv-timeout", {"op": e, **detail})
            if len(sends) >= 2:
                nontrivial = True
        else:
            for (a, b, sid) in sc["chans"]:
                for (x, y) in ((a, b), (b, a)):
                    sends = [e for e in hist if e["thread"] == x and e["op"][0] == "send" and e["op"][1] == y and e["op"][2] == sid]
                    ok = [e for e in sends if e["exc"] is None]
                    sent = [e["op"][4] for e in ok]
                    # y's life on this channel: alternating connect / drop entries
                    ylife = [e for e in hist if e["thread"] == y and e["op"][0] in ("connect", "drop")
                             and e["op"][1] == x and e["op"][2] == sid]
                    INF = 10 ** 12
                    gone_maybe: List[Tuple[int, int]] = []   # y possibly not there: [drop.invoke, next connect.ret]
                    gone_sure: List[Tuple[int, int]] = []    # y certainly not there: [drop.ret, next connect.invoke]
                    leaving: List[Tuple[int, int]] = []      # y going or gone: [drop.invoke, next connect.invoke]
                    for i2, ev in enumerate(ylife):
                        if ev["op"][0] != "drop":
                            continue
                        nxt = next((c for c in ylife[i2 + 1:] if c["op"][0] == "connect"), None)
                        gone_maybe.append((ev["invoke"], nxt["ret"] if nxt else INF))
                        gone_sure.append((ev["ret"], nxt["invoke"] if nxt else INF))
                        leaving.append((ev["invoke"], nxt["invoke"] if nxt else INF))

                    def meets(e2, spans):
                        return any(not (e2["ret"] < lo or hi < e2["invoke"]) for lo, hi in spans)

                    def inside(e2, spans):
                        return any(lo < e2["invoke"] and e2["ret"] < hi for lo, hi in spans)

                    for e in sends:
                        if e["exc"] == "ConnectionError":
                            bump(probes, "connection-error-after-disconnect")
                            if not meets(e, gone_maybe):
                                raise Violation("send", "send|spurious-ConnectionError", {"op": e, **detail})
                        elif e["exc"] is not None:
                            raise Violation("send", f"send|unexpected-{e['exc']}", {"op": e, **detail})
                        elif inside(e, gone_sure):
                            raise Violation("send", "send|succeeded-after-peer-disconnected", {"op": e, "peer_life": ylife, **detail})
                        if meets(e, gone_maybe) and not inside(e, gone_sure):
                            bump(probes, "send-races-disconnect")
                            nontrivial = True
                    usecb = sc["callback"].get((x, y, sid), False)
                    recvs = [e for e in hist if e["thread"] == y and e["op"][0] == "recv" and e["op"][1] == x and e["op"][2] == sid]
                    if usecb:
                        recvd = [mm for (_, mm) in cb_log.get((x, y, sid), [])]
                        recvd = [_payload(v) for v in recvd]
                        if recvd:
                            bump(probes, "callback-delivery")
                    else:
                        recvd = [e["out"] for e in recvs if e["exc"] is None]
                    if len(set(recvd)) != len(recvd):
                        raise Violation("once", "once|message-delivered-twice", {"channel": [x, y, sid], "received": recvd, **detail})
                    it = iter(sent)
                    is_subseq = all(any(r == z for z in it) for r in recvd)
                    if (recvd != sent[:len(recvd)]) if not usecb else (not is_subseq):
                        cls = "unknown-payload" if any(r not in sent for r in recvd) else "out-of-order-or-gap"
                        raise Violation("order", f"order|{cls}|{'callback' if usecb else 'recv'}",
                                        {"channel": [x, y, sid], "sent": sent, "received": recvd, **detail})
                    left = [_payload(v) for v in leftover.get((y, x, sid), [])]
                    if usecb:
                        # a callback receiver that is being destroyed cannot take a message any more: only sends that
                        # completed before its disconnect began are owed a delivery
                        owed = [e["op"][4] for e in ok if not meets(e, leaving)]
                        if any(pl in owed for pl in left):
                            raise Violation("once", "once|callback-endpoint-message-left-in-queue",
                                            {"channel": [x, y, sid], "sent": sent, "received": recvd, "queued": left, **detail})
                        if any(pl not in recvd for pl in owed):
                            raise Violation("once", "once|callback-endpoint-message-lost",
                                            {"channel": [x, y, sid], "sent": sent, "owed": owed, "received": recvd, **detail})
                    elif recvd + left != sent:
                        raise Violation("once", "once|received+queued-differs-from-sent",
                                        {"channel": [x, y, sid], "sent": sent, "received": recvd, "queued": left, **detail})
                    # non-blocking / timed receives against what was certainly there
                    for e in recvs:
                        n_sent_before = sum(1 for s2 in ok if s2["ret"] < e["invoke"])
                        n_recv_before = sum(1 for r2 in recvs if r2 is not e and r2["exc"] is None and r2["ret"] <= e["invoke"])
                        certainly_there = n_sent_before - n_recv_before > 0
                        if e["exc"] == "RuntimeError":
                            bump(probes, "nonblocking-recv-empty")
                            if e["op"][3] != "nonblock":
                                raise Violation("recv", "recv|blocking-recv-raised-RuntimeError", {"op": e, **detail})
                            if certainly_there:
                                raise Violation("recv", "recv|nonblocking-reported-empty-on-nonempty-channel", {"op": e, **detail})
                        elif e["exc"] == "TimeoutError":
                            bump(probes, "recv-timeout")
                            if certainly_there:
                                raise Violation("recv", "recv|timeout-although-message-was-queued", {"op": e, **detail})
                        elif e["exc"] is not None:
                            raise Violation("recv", f"recv|unexpected-{e['exc']}", {"op": e, **detail})
                        elif e["op"][3] == "nonblock":
                            bump(probes, "nonblocking-recv-got")
                        # overlap of a non-blocking receive with a send = a race actually explored
                        if e["op"][3] == "nonblock" and any(not (s2["ret"] < e["invoke"] or e["ret"] < s2["invoke"]) for s2 in ok):
                            nontrivial = True
                    # two messages in flight at some moment
                    for i, s2 in enumerate(ok):
                        n_r = sum(1 for r2 in recvs if r2["exc"] is None and r2["ret"] < s2["ret"])
                        if usecb:
                            n_r = sum(1 for (pt, _) in cb_log.get((x, y, sid), []) if pt < s2["invoke"])
                        if (i + 1) - n_r >= 2 and not usecb:
                            bump(probes, "two-in-flight")
                            nontrivial = True
                    for e in ok:
                        if e["op"][3] == "structured":
                            bump(probes, "structured")
                        if e["op"][3] == "silent":
                            bump(probes, "silent")
        h = hashlib.blake2b(repr(sc["script"]).encode(), digest_size=6).hexdigest()
        fpr = hashlib.blake2b("".join(sched.fp).encode(), digest_size=8).hexdigest()
        return {"digest": trace.digest(), "fingerprint": fpr + h, "nontrivial": bool(nontrivial), "events": sched.points,
                "sim_ns": sched.now_ns, "faults": faults, "probes": probes, "calm": calm,
                "sample": {"endpoints": names, "broadcast": sc["broadcast"], "script": sc["script"][:12], "switch_prob": list(sw),
                           "history_head": [[e["thread"], list(e["op"]), e["invoke"], e["ret"], e["out"], e["exc"]] for e in hist[:14]]}}

    if late and sc.get("reconnect"):
        detail["finalisers_on_foreign_threads"] = late[:5]
        bump(probes, "late-finaliser")
        try:
            return _judge()
        except Violation as v:
            raise Violation(v.oracle, v.signature + "|late-finaliser-of-replaced-socket", v.detail)
    return _judge()


class _DummyHub:
    def disconnect(self, socket):
        pass

    def is_connected(self, socket):
        return False


def _payload(v: Any) -> Any:
    """payload of a plain / structured (json) message"""
    if isinstance(v, str) and v.startswith("{"):
        import json
        try:
            return json.loads(v)["payload"]
        except Exception:  # noqa: BLE001
            return v
    return v


def cleanup() -> None:
    m = _load()
    m["ts"].ThreadSocket._COMM_LOGGERS.clear()
    try:
        import netqasm.logging.output as _out
        _out._STRUCT_LOGGERS.clear()
    except Exception:  # noqa: BLE001
        pass
    m["sh"].sleep, m["sh"].timer, m["sh"].Lock, m["bc"].timer = m["orig"]
