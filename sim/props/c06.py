"""C06 -- Pre-compiled templated subroutines equal direct compilation.

Twin simulation under one choice record.  System A runs the precompiled flow
(conn.compile() -> Subroutine.instantiate(values) -> conn.commit_subroutine()), system B
runs the same operations written with the concrete values and ordinary flushes.  The
scheduler owns the measurement-outcome script, the template values, and where in the
operation sequence the compile/instantiate/commit triples and the ordinary flushes fall.
After every segment: controller gate trace, arrays, shared memory and every host-visible
handle must agree, and so must the connection bookkeeping (arrays / registers pending
return, used M registers) -- a later flush in A must declare and return exactly what the
corresponding flush in B does.
"""
from __future__ import annotations

import hashlib
import traceback
from typing import Any, Dict, List, Optional, Tuple

from netqasm.lang.operand import Template
from netqasm.sdk.build_types import GenericHardwareConfig, NVHardwareConfig
from netqasm.sdk.transpile import NVSubroutineTranspiler

from sim.core import Choices, Discard, Sched, Trace, Violation
from sim.models.host_ref import HostGen
from sim.props.c05 import _last_sub, classify_ctrl_fault
from sim.rigs.controller import ControllerNode
from sim.rigs.host import SdkDriver
from sim.stubs.backend import reset_globals
from sim.stubs.connection import SimConnection, SimNetworkInfo
from sim.stubs.qmem_trace import TraceQMem

PROP = "C06"
RUNS = {"quick": 4000, "thorough": 400000}
BUDGET_S = {"quick": 60, "thorough": 1500}
RULE = ("one run = a host program of 1-6 segments (straight-line and looped quantum code, rotation numerators possibly "
        "templates, measurements into futures / arrays / registers), each segment ended either by an ordinary flush or "
        "by compile -> instantiate(values) -> commit; executed twice under the same choices: A precompiled, B direct with "
        "the concrete values; non-trivial = at least one precompiled segment with a template AND a later ordinary flush "
        "that touches values produced before it; distinct = distinct (program, values, outcome script) digest")
COMPONENTS = {
    "real": ["BaseNetQASMConnection.compile / commit_subroutine / flush / commit_protosubroutine", "Builder bookkeeping "
             "(MemoryManager arrays/registers pending return, M registers)", "Subroutine.instantiate (template substitution)",
             "rotation instructions with Template immediates", "NVSubroutineTranspiler (when enabled)", "assembler, codec, "
             "controller, executor"],
    "stub": ["two SimConnections on two simulated controllers (twin)", "trace memories with one shared outcome script",
             "generator"],
}
ASSUMPTIONS = [
    "system B (direct flush with concrete values) is the reference for system A; B itself is judged by C05",
    "template operands only in rotation numerators (what the instruction classes accept)",
]
PROBES = ["deferred-commit", "precompiled-segment", "template-used", "flush-after-precompile", "nv-transpiler", "loop-in-precompiled",
          "value-crosses-precompile", "regfuture-in-precompiled", "two-precompiled-segments", "instantiated-more-than-once", "committed-without-instantiate",
          "instantiate-retried-after-a-missing-value", "template-names-contained-in-one-another"]

ALLOW = {"qblock", "qubit", "gate", "measure", "array", "loop", "loop-start-step", "rot", "add", "if", "empty-body", "regfuture"}


def subst(x: Any, mapping: Dict[str, Any]) -> Any:
    if isinstance(x, tuple):
        if len(x) == 2 and x[0] == "tmpl":
            return mapping[x[1]]
        return tuple(subst(y, mapping) for y in x)
    if isinstance(x, list):
        return [subst(y, mapping) for y in x]
    return x


def templates_in(x: Any, acc: List[str]) -> None:
    if isinstance(x, tuple):
        if len(x) == 2 and x[0] == "tmpl":
            if x[1] not in acc:
                acc.append(x[1])
            return
        for y in x:
            templates_in(y, acc)
    elif isinstance(x, list):
        for y in x:
            templates_in(y, acc)


LABELISH = ["LOOP", "IF_EXIT", "LOOP_EXIT", "LOOP1", "IF_EXIT1", "WHILE", "LOOP_EXIT1", "LOOP2"]


NESTED = ["theta", "theta_z", "a", "alpha", "th", "t", "x2", "x", "eta", "beta"]   # names contained in one another


def tname(i: int, labelish: Any) -> str:
    """template names: t0, t1, ... or (per run) names that the builder also uses for its branch labels, or names of which
    one is a substring of another (both orders occur in the values dictionary)"""
    if labelish == "nested":
        return NESTED[i] if i < len(NESTED) else f"t{i}"
    return LABELISH[i] if labelish and i < len(LABELISH) else f"t{i}"


def templatise(stmts: List[tuple], ch: Choices, counter: List[int], labelish: bool = False) -> List[tuple]:
    """replace some rotation numerators by template operands"""
    out = []
    for s in stmts:
        if s[0] == "rot" and ch.flag(2, 3, "tmpl"):
            if counter[0] > 0 and ch.flag(1, 3, "reuse"):
                nm = tname(ch.draw(counter[0], 'which'), labelish)     # one template name used by several rotations
            else:
                nm = tname(counter[0], labelish)
                counter[0] += 1
            out.append(("rot", s[1], s[2], ("tmpl", nm), s[4]))
        elif s[0] in ("loop", "if", "foreach", "enumerate"):
            out.append(tuple(templatise(x, ch, counter, labelish) if isinstance(x, list) and x and isinstance(x[0], tuple) else x
                             for x in s))
        else:
            out.append(s)
    return out


class System:
    def __init__(self, tag: str, script: List[int], budget: int, nv: bool):
        self.tag = tag
        n = {"n": 0}

        def outcome(_q):
            v = script[n["n"] % len(script)]
            n["n"] += 1
            return v

        self.qm = TraceQMem(outcome)
        self.node = ControllerNode("n" + tag, 0 if tag == "A" else 1, self.qm, lambda: 0,
                                   flavour="nv" if nv else "vanilla", with_stack=False)
        hwc = NVHardwareConfig(budget) if nv else GenericHardwareConfig(budget)
        self.conn = SimConnection("app" + tag, self.node, max_qubits=budget, hardware_config=hwc,
                                  compiler=NVSubroutineTranspiler if nv else None)
        self.drv = SdkDriver(self.conn)

    def bookkeeping(self) -> Dict[str, Any]:
        mm = self.conn.builder._mem_mgr
        return {
            "arrays_pending_return": sorted(a.address for a in mm._arrays_to_return),
            "registers_pending_return": sorted(str(r) for r in mm._registers_to_return),
            "used_M_registers": sorted(str(r) for r, u in mm._used_meas_registers.items() if u),
            "active_registers": sorted(str(r) for r in mm._active_registers),
            "pending_commands": len(self.conn.builder._pending_commands),
        }

    def drain(self, sample: Any) -> None:
        try:
            self.conn.drain_now()
        except Violation:
            raise
        except Exception as e:  # noqa: BLE001
            raise Violation("controller", f"controller-fault|{self.tag}|{type(e).__name__}|{classify_ctrl_fault(e)}",
                            {"system": self.tag, "error": str(e)[:400], "subroutine": _last_sub(self.conn), **sample})

    def visible(self) -> Dict[str, Any]:
        aid = self.conn.app_id
        out: Dict[str, Any] = {"arrays": {}, "futs": {}, "regs": {}, "ctrl_arrays": {}}
        for name, arr in self.drv.arrays.items():
            out["arrays"][name] = arr[0:len(arr)]
            out["ctrl_arrays"][name] = self.node.arrays(aid).get(arr.address)
        for name, f in self.drv.futs.items():
            out["futs"][name] = f.value
            ca = self.node.arrays(aid).get(f._address)
            out["ctrl_arrays"]["$" + name] = ca
        for name, r in self.drv.regs.items():
            out["regs"][name] = r.value
        return out


def template_sites(sub: Any) -> List[Tuple[int, int, str]]:
    return [(i, j, op.name) for i, ins in enumerate(sub.instructions) for j, op in enumerate(ins.operands)
            if isinstance(op, Template)]


def rehearse_rounds(sub: Any, app_id: int, rounds: List[Dict[str, int]], sample: Dict[str, Any]) -> None:
    import copy

    sites = template_sites(sub)
    plain = [str(ins) for ins in sub.instructions]
    for r, vals in enumerate(rounds):
        c = copy.copy(sub)
        mine = dict(vals)        # the caller's own dictionary, passed as it is (a host may use it again for the next round)
        try:
            c.instantiate(app_id, mine)
        except Exception as e:  # noqa: BLE001
            raise Violation("sdk", f"sdk-exception|instantiate-round|{type(e).__name__}", {"round": r, "error": str(e)[:200], **sample})
        if mine != vals:
            raise Violation("template", "template|instantiate-changed-the-callers-values",
                            {"round": r, "passed": vals, "left": mine, **sample})
        if len(c.instructions) != len(plain):
            raise Violation("template", "template|round-changed-instruction-count", {"round": r, **sample})
        for (i, j, name) in sites:
            got = c.instructions[i].operands[j]
            gv = getattr(got, "value", got)
            if isinstance(got, Template) or gv != vals[name]:
                raise Violation("template", "template|round-copy-carries-wrong-value",
                                {"round": r, "instruction": i, "template": name, "got": str(got), "want": vals[name], **sample})
        left = template_sites(sub)
        if left != sites or [str(ins) for ins in sub.instructions] != plain:
            raise Violation("template", "template|instantiating-a-copy-changed-the-compiled-subroutine",
                            {"round": r, "templates_before": len(sites), "templates_after": len(left), **sample})


def run(ch: Choices, opts: Dict[str, Any]) -> Dict[str, Any]:
    reset_globals()
    SimNetworkInfo.reset()
    avoid = set(opts.get("avoid", ())) | {"regfuture-in-body", "rewrite-after-read"}
    calm = ch.flag(1, 10, "calm")
    nv = (not calm) and ch.flag(1, 3, "nv")
    budget = 3 + ch.draw(3, "budget")
    script = [ch.draw(2, "outcome") for _ in range(24)]
    n_seg = 1 + ch.draw(2 if calm else 6, "nseg")
    # on NV the SDK relocates qubits at build time, which is only meaningful in straight-line code (C09's domain)
    allow = ALLOW if not nv else (ALLOW - {"loop", "if", "empty-body"})
    gen = HostGen(ch, max_qubits=budget - (1 if nv else 0), avoid=avoid, allow=allow, max_depth=2)
    counter = [0]
    nested_seen = [0]
    labelish: Any = (not calm) and ch.flag(1, 4, "labelish-names")
    if not calm and not labelish and ch.flag(1, 3, "nested-names"):
        labelish = "nested"
    segments: List[Dict[str, Any]] = []
    for si in range(n_seg):
        stmts: List[tuple] = []
        for _ in range(1 + ch.draw(5, "nst")):
            stmts += [s for s in gen.stmt(top=True) if s[0] != "flush"]
        if si == n_seg - 1:
            for q in list(gen.live):
                t = gen.target()
                stmts.append(("measure", q, t, False))
                gen.note_written(t)
                gen.live.remove(q)
        pre = ch.flag(1, 2, "precompile")
        if pre:
            stmts = templatise(stmts, ch, counter, labelish)
        names: List[str] = []
        templates_in(stmts, names)
        # mostly ordinary numerators; sometimes values at and beyond the 8-bit immediate (both routes wrap those alike)
        BIG = [254, 255, 256, 257, 300, 511]
        values = {nm: (ch.draw(32, "tval") if not ch.flag(1, 6, "tbig") else BIG[ch.draw(len(BIG), "tbigv")]) for nm in names}
        if labelish == "nested" and sum(1 for a in values for b in values if a != b and a in b):
            nested_seen[0] += 1
        if len(values) > 1 and ch.flag(1, 2, "values-order"):
            values = dict(reversed(list(values.items())))      # the caller's dictionary lists the names in another order
        gen.flush_stmt()
        # a compiled subroutine may be committed later: after the next segment's operations were issued
        defer = pre and si < n_seg - 1 and ch.flag(1, 3, "defer")
        rounds = [{nm: ch.draw(32, "rval") for nm in names} for _ in range(1 + ch.draw(2, "nrounds"))] \
            if (pre and names and ch.flag(1, 3, "rounds")) else []
        segments.append({"stmts": stmts, "precompile": pre, "values": values, "defer": defer, "rounds": rounds,
                         "skip_instantiate": ch.flag(1, 2, "skipinst"), "failed_first": ch.flag(1, 3, "failedfirst")})
    faults: Dict[str, int] = {}
    probes: Dict[str, int] = {}

    def bump(d, k, n=1):
        d[k] = d.get(k, 0) + n

    sample = {"segments": segments, "nv": nv, "budget": budget, "outcomes": script[:8]}
    if nested_seen[0]:
        bump(probes, "template-names-contained-in-one-another", nested_seen[0])
    A = System("A", script, budget, nv)
    B = System("B", script, budget, nv)
    if nv:
        bump(probes, "nv-transpiler")
    n_pre = 0
    seen_pre = False
    pending: List[Tuple[Any, Dict[str, int]]] = []
    for si, seg in enumerate(segments):
        conc = subst(seg["stmts"], seg["values"])
        tmpl = subst(seg["stmts"], {nm: Template(nm) for nm in seg["values"]})
        for which, sysm, stmts in (("A", A, tmpl if seg["precompile"] else conc), ("B", B, conc)):
            for st in stmts:
                try:
                    sysm.drv.exec(st)
                except Violation:
                    raise
                except Exception as e:  # noqa: BLE001
                    fr = traceback.extract_tb(e.__traceback__)[-1]
                    raise Violation("sdk", f"sdk-exception|{which}|{type(e).__name__}|{fr.name}|{st[0]}",
                                    {"system": which, "stmt": repr(st), "error": str(e)[:300], **sample})
        # end of segment
        try:
            # subroutines compiled earlier and held back are committed now, in order, before this segment's own end
            # action (system B executed them at their own segment end; the SDK-side call sequence is identical)
            if pending:
                for sub0, vals0 in pending:
                    sub0.instantiate(A.conn.app_id, dict(vals0))
                    A.conn.commit_subroutine(sub0)
                pending.clear()
                bump(probes, "deferred-commit")
                bump(faults, "commit-deferred-past-later-operations")
                A.drain(sample)
            if seg["precompile"]:
                sub = A.conn.compile()
                if sub is not None and seg["values"] and seg.get("rounds"):
                    # compile once, fill in several times: every (shallow) copy of the compiled subroutine takes its own
                    # values, and the compiled original keeps its template operands for the next round
                    rehearse_rounds(sub, A.conn.app_id, seg["rounds"], sample)
                    bump(probes, "instantiated-more-than-once")
                if sub is not None:
                    if seg["defer"]:
                        pending.append((sub, seg["values"]))
                    else:
                        if not seg["values"] and seg.get("skip_instantiate"):
                            # nothing to fill in: the compiled subroutine is committed as it is
                            bump(probes, "committed-without-instantiate")
                        else:
                            if len(seg["values"]) >= 2 and seg.get("failed_first"):
                                # injected fault: the first call has only some of the values (KeyError half-way); the
                                # complete call afterwards must still see the whole subroutine
                                part = dict(list(seg["values"].items())[:1])
                                try:
                                    sub.instantiate(A.conn.app_id, part)
                                except KeyError:
                                    bump(faults, "instantiate-called-with-a-value-missing")
                                    bump(probes, "instantiate-retried-after-a-missing-value")
                            sub.instantiate(A.conn.app_id, dict(seg["values"]))
                        A.conn.commit_subroutine(sub)
                n_pre += 1
                bump(probes, "precompiled-segment")
                if seg["values"]:
                    bump(probes, "template-used")
                if any(s[0] == "loop" for s in seg["stmts"]):
                    bump(probes, "loop-in-precompiled")
                if any(s[0] == "measure" and s[2][0] == "reg" for s in seg["stmts"]):
                    bump(probes, "regfuture-in-precompiled")
                bump(faults, "precompiled-instead-of-flush")
            else:
                A.conn.flush()
                if seen_pre:
                    bump(probes, "flush-after-precompile")
            B.conn.flush()
        except Violation:
            raise
        except Exception as e:  # noqa: BLE001
            fr = traceback.extract_tb(e.__traceback__)[-1]
            raise Violation("sdk", f"sdk-exception|segment-end|{type(e).__name__}|{fr.name}|{'precompile' if seg['precompile'] else 'flush'}"
                            f"{'|nv' if nv else ''}",
                            {"segment": si, "error": str(e)[:300], **sample})
        seen_pre = seen_pre or seg["precompile"]
        fa = fb = None
        try:
            A.drain(sample)
        except Violation as v:
            fa = v
        try:
            B.drain(sample)
        except Violation as v:
            fb = v
        if fa is not None or fb is not None:
            ca = fa.signature.split("|", 2)[2] if fa is not None else None
            cb = fb.signature.split("|", 2)[2] if fb is not None else None
            if pending and fa is None:
                raise Discard("direct system faulted while the precompiled one still holds the subroutine back")
            if ca == cb:
                # both flows fault identically: not a difference between precompiled and direct (C09's business)
                raise Discard("both systems fault identically: " + str(ca))
            raise Violation("twin", f"twin|controller-fault-in-one-system|A={ca}|B={cb}",
                            {"A": fa.detail if fa else None, "B": fb.detail if fb else None})
        where = f"segment#{si}({'precompiled' if seg['precompile'] else 'flush'})"
        if pending:
            continue   # A has not executed this segment yet; compared after its commit
        if A.qm.log != B.qm.log:
            n = 0
            while n < len(A.qm.log) and n < len(B.qm.log) and A.qm.log[n] == B.qm.log[n]:
                n += 1
            raise Violation("twin", "twin|controller-trace-differs",
                            {"where": where, "at": n, "A": A.qm.log[max(0, n - 4):n + 4], "B": B.qm.log[max(0, n - 4):n + 4], **sample})
        va, vb = A.visible(), B.visible()
        for part in ("ctrl_arrays", "arrays", "futs", "regs"):
            if va[part] != vb[part]:
                diff = {k: (va[part].get(k), vb[part].get(k)) for k in set(va[part]) | set(vb[part])
                        if va[part].get(k) != vb[part].get(k)}
                kind = {"ctrl_arrays": "controller-arrays", "arrays": "host-visible-arrays", "futs": "host-visible-futures",
                        "regs": "host-visible-register-futures"}[part]
                raise Violation("twin", f"twin|{kind}-differ", {"where": where, "diff(A,B)": diff, **sample})
        if A.node.shm_regs(A.conn.app_id) != B.node.shm_regs(B.conn.app_id):
            raise Violation("twin", "twin|shared-memory-registers-differ", {"where": where, **sample})
        ba, bb = A.bookkeeping(), B.bookkeeping()
        if ba != bb:
            diff = {k: (ba[k], bb[k]) for k in ba if ba[k] != bb[k]}
            raise Violation("twin", "twin|connection-bookkeeping-differs|" + ",".join(sorted(diff)),
                            {"where": where, "diff(A,B)": diff, **sample})
    dg = hashlib.blake2b(repr((A.qm.log, B.qm.log, A.visible(), A.bookkeeping())).encode(), digest_size=10).hexdigest()
    for sysm in (A, B):
        sysm.conn.close()
        sysm.drain(sample)
    if n_pre >= 2:
        bump(probes, "two-precompiled-segments")
    crosses = False
    for si, seg in enumerate(segments):
        if seg["precompile"] and si + 1 < len(segments):
            crosses = True
    if crosses:
        bump(probes, "value-crosses-precompile")
    h = hashlib.blake2b(repr((segments, script, nv, budget)).encode(), digest_size=10).hexdigest()
    nontrivial = any(s["precompile"] and s["values"] for s in segments) and crosses
    return {
        "digest": dg, "fingerprint": h, "nontrivial": bool(nontrivial), "events": sum(len(s["stmts"]) for s in segments),
        "sim_ns": 0, "faults": faults, "probes": probes, "calm": calm,
        "sample": {"nv": nv, "budget": budget, "segments": [{"precompile": s["precompile"], "values": s["values"],
                                                             "stmts": s["stmts"][:8]} for s in segments[:3]]},
    }


def cleanup() -> None:
    reset_globals()
    SimNetworkInfo.reset()
