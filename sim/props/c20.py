"""C20 -- Toolbox circuits implement their documented operators.

Single node, state-vector universe, the whole SDK -> bytes -> controller pipeline real.
Inputs: computational-basis and random (entangled) states *injected into the simulated
memory* after the allocation flush.  The scheduler owns the branch of every measurement
(each scenario is re-run along each outcome branch, so the outcome distribution is exact:
Born weights from the state vector, not sampling) and the flush placement.
Oracle: toffoli_gate / t_inverse: final state = U psi up to global phase;
set_qubit_state: cos(theta/2)|0> + e^{i phi} sin(theta/2)|1> within the angle tolerance;
parity_meas: per branch the returned value is the eigenvalue bit of the signed Pauli
string, the branch probability is |P+- psi|^2 and the post-measurement state of the data
qubits is P+- psi / |P+- psi| (ancilla released, data qubits still allocated).
"""
from __future__ import annotations

import hashlib
import math
import traceback
from typing import Any, Dict, List, Optional, Tuple

import numpy as np

from netqasm.sdk.build_types import GenericHardwareConfig, NVHardwareConfig
from netqasm.sdk.qubit import Qubit
from netqasm.sdk.toolbox.gates import t_inverse, toffoli_gate
from netqasm.sdk.toolbox.measurements import parity_meas
from netqasm.sdk.toolbox.state_prep import set_qubit_state
from netqasm.sdk.transpile import NVSubroutineTranspiler

from sim.core import Choices, Discard, Sched, Trace, Violation
from sim.props.c05 import _last_sub
from sim.rigs.controller import ControllerNode, subroutine_bytes
from sim.stubs.backend import reset_globals
from sim.stubs.connection import SimConnection, SimNetworkInfo
from sim.stubs.qmem_sv import I2, SVQMem, T as TGATE, Universe, X, Y, Z

PROP = "C20"
RUNS = {"quick": 6000, "thorough": 600000}
BUDGET_S = {"quick": 60, "thorough": 1500}
RULE = ("one run = one toolbox call (toffoli_gate | t_inverse | set_qubit_state(theta, phi) | parity_meas over a Pauli "
        "string of length 1-3 with optional leading '-') on a drawn input state (computational basis or random entangled "
        "vector injected into the simulated memory), generic or NV+transpiler, with drawn flush placement, re-run along "
        "every measurement branch; non-trivial = the input is not a computational basis state (superposition/entangled) "
        "or the call has two outcome branches of non-zero probability; distinct = distinct (call, arguments, input) digest")
COMPONENTS = {
    "real": ["netqasm.sdk.toolbox.gates / measurements / state_prep", "Qubit gate methods, Future.add(mod)", "Builder, "
             "assembler, codec, controller, executor", "NVSubroutineTranspiler (when enabled)"],
    "stub": ["state-vector universe (gate semantics from definitions) with forced measurement branches", "state "
             "injection into the simulated memory", "operator table of the oracle (Toffoli, T-dagger, Pauli projectors)"],
}
ASSUMPTIONS = [
    "state-vector universe sim/stubs/qmem_sv.py is the trusted quantum semantics",
    "set_qubit_state tolerance: fidelity >= 1 - 1e-7 (angle decomposition tolerance 1e-4 * pi per rotation, i.e. infidelity <= 5e-8)",
    "other thresholds 1 - 1e-9",
]
PROBES = ["toffoli", "t_inverse", "set_qubit_state", "parity_meas", "parity:ancilla-path", "parity:single-qubit-path",
          "parity:trivial", "parity:negative", "parity_sequence", "parity:sequence-read-at-the-end", "parity:ancilla-refused-then-retried", "virtual-ids-differ-from-physical", "parity:both-branches-possible", "entangled-input", "flush-inside"]

PAULI = {"I": I2, "X": X, "Y": Y, "Z": Z}
TOFFOLI = np.eye(8, dtype=complex)
TOFFOLI[6:8, 6:8] = np.array([[0, 1], [1, 0]])


def kron_all(ms: List[np.ndarray]) -> np.ndarray:
    out = np.array([[1]], dtype=complex)
    for m in ms:
        out = np.kron(out, m)
    return out


def random_vec(ch: Choices, n: int, kind: int) -> np.ndarray:
    dim = 2 ** n
    if kind == 0:
        v = np.zeros(dim, dtype=complex)
        v[ch.draw(dim, "basis")] = 1
        return v
    v = np.array([complex(ch.draw(9, "re") - 4, ch.draw(9, "im") - 4) for _ in range(dim)], dtype=complex)
    if np.linalg.norm(v) < 1e-9:
        v[0] = 1
    return v / np.linalg.norm(v)


def fid(a: np.ndarray, b: np.ndarray) -> float:
    return float(abs(np.vdot(a, b)) ** 2)


def one_pass(ch: Choices, spec: Dict[str, Any], forced: List[int], sample: Dict[str, Any]) -> Dict[str, Any]:
    """Run the scenario once along the forced measurement branch."""
    reset_globals()
    SimNetworkInfo.reset()
    uni = Universe(lambda: 0.5)
    nv = spec["nv"]
    qm = SVQMem(uni, 0)
    node = ControllerNode("n0", 0, qm, lambda: 0, flavour="nv" if nv else "vanilla", with_stack=False)
    n = spec["n"]
    budget = n + 2 if not spec.get("refused_first") else n + 1
    hwc = NVHardwareConfig(budget) if nv else GenericHardwareConfig(budget)
    conn = SimConnection("app", node, max_qubits=budget, hardware_config=hwc, compiler=NVSubroutineTranspiler if nv else None)

    def drain(where: str) -> None:
        try:
            conn.drain_now()
        except Violation:
            raise
        except Exception as e:  # noqa: BLE001
            raise Violation("controller", f"controller-fault|{type(e).__name__}|{spec['call']}{'|nv' if nv else ''}",
                            {"where": where, "error": str(e)[:300], "subroutine": _last_sub(conn)[:2000], **sample})

    try:
        if spec.get("foreign"):
            # another application on the same controller already holds some qubits: this application's virtual IDs
            # then differ from the physical positions
            node.init_app(77, spec["foreign"])
            fprog: List[tuple] = []
            for v in range(spec["foreign"]):
                fprog += [("set", ("Q", 0), v), ("qalloc", ("Q", 0)), ("init", ("Q", 0))]
            node.run_raw_now(subroutine_bytes(fprog, 77, node.flavour))
        qs = [Qubit(conn) for _ in range(n)]
        spare = Qubit(conn) if spec.get("refused_first") else None     # fills the unit module: no room for an ancilla
        conn.flush()
        drain("allocation")
        slots = [(0, node.unit_module(conn.app_id)[q.qubit_id]) for q in qs]
        uni.inject(slots, spec["psi"])
        uni.forced = list(forced)
        uni.branch_prob = 1.0
        result: Any = None
        call = spec["call"]
        if call == "toffoli":
            toffoli_gate(qs[0], qs[1], qs[2])
        elif call == "t_inverse":
            t_inverse(qs[0])
        elif call == "set_qubit_state":
            set_qubit_state(qs[0], phi=spec["phi"], theta=spec["theta"])
        elif call == "parity_sequence":
            handles = []
            for b, blk in zip(spec["sequence"], spec["flush_block"]):
                handles.append(parity_meas(qs, b))
                conn.flush(block=blk)      # (the stub controller finishes the subroutine before the host goes on either way)
                drain("sequence")
            result = handles
        else:
            if spec["flush_inside"]:
                conn.flush()
                drain("inside")
            if spec.get("refused_first"):
                # injected fault: the controller has no room for the ancilla, refuses the allocation and aborts the
                # subroutine; the host frees a qubit and asks again.  The refused attempt must have changed nothing.
                parity_meas(qs, spec["bases"])
                conn.flush()
                try:
                    conn.drain_now()
                    raise Violation("fault", "fault|allocation-beyond-the-unit-module-was-accepted", dict(sample))
                except Violation:
                    raise
                except Exception:  # noqa: BLE001 -- the refusal
                    pass
                um0 = node.unit_module(conn.app_id)
                st0 = uni.statevector([(0, um0[q.qubit_id]) for q in qs])
                if st0 is None or fid(st0, spec["psi"]) < 1 - 1e-9:
                    raise Violation("fault", "fault|refused-parity-measurement-changed-the-data-qubits",
                                    {"fidelity": None if st0 is None else fid(st0, spec["psi"]), **sample})
                spare.free()
                conn.flush()
                drain("free the spare")
            result = parity_meas(qs, spec["bases"])
        conn.flush()
        drain("call")
    except Violation:
        raise
    except Exception as e:  # noqa: BLE001
        fr = traceback.extract_tb(e.__traceback__)[-1]
        raise Violation("sdk", f"sdk-exception|{type(e).__name__}|{fr.name}|{spec['call']}{'|nv' if nv else ''}",
                        {"error": str(e)[:300], **sample})
    errs = uni.errors + qm.errors
    if errs:
        raise Violation("memory", f"memory|{errs[0].split(' ')[0]}|{spec['call']}", {"errors": errs[:3], **sample})
    # where are the data qubits now (the SDK may have relocated them on NV)?
    um = node.unit_module(conn.app_id)
    cur = []
    for q in qs:
        if q.qubit_id >= len(um) or um[q.qubit_id] is None:
            raise Violation("state", f"data-qubit-not-allocated|{spec['call']}", dict(sample))
        cur.append((0, um[q.qubit_id]))
    out = {"state": uni.statevector(cur), "prob": uni.branch_prob, "result": result, "live": len(qm.live) - spec.get("foreign", 0),
           "value": ([(h.value if hasattr(h, "value") else h) for h in result] if isinstance(result, list)
                     else (result.value if hasattr(result, "value") else result))}
    conn.close()
    try:
        conn.drain_now()
    except Exception:  # noqa: BLE001
        pass
    return out


def run(ch: Choices, opts: Dict[str, Any]) -> Dict[str, Any]:
    calm = ch.flag(1, 10, "calm")
    call = ["toffoli", "t_inverse", "set_qubit_state", "parity_meas", "parity_sequence"][ch.weighted([2, 1, 2, 5, 0 if calm else 2], "call")]
    nv = False   # the property speaks about the vanilla pipeline; NV decompositions are C08's business
    faults: Dict[str, int] = {}
    probes: Dict[str, int] = {}

    def bump(d, k, n=1):
        d[k] = d.get(k, 0) + n

    bump(probes, call)
    if nv:
        bump(probes, "nv-transpiler")
    spec: Dict[str, Any] = {"call": call, "nv": nv, "flush_inside": False}
    kind = 0 if calm else ch.weighted([1, 3], "inkind")
    if call == "toffoli":
        spec["n"] = 3
    elif call in ("t_inverse", "set_qubit_state"):
        spec["n"] = 1
        if call == "set_qubit_state":
            kind = 0
            spec["theta"] = math.pi * ch.draw(65, "theta") / 32 - (math.pi if ch.flag(1, 4, "neg") else 0)
            spec["phi"] = 2 * math.pi * ch.draw(129, "phi") / 64 - (math.pi if ch.flag(1, 4, "neg") else 0)
            if ch.flag(1, 3, "irr"):
                spec["theta"] += ch.draw(1000, "irr") * 1e-3
                spec["phi"] += ch.draw(1000, "irr") * 7e-4
    elif call == "parity_sequence":
        # several parity measurements on the same qubits, each flushed as its own subroutine; the host looks at the
        # returned handles only at the very end
        n = 1 + ch.draw(3, "nq")
        spec["n"] = n
        seq = []
        for _ in range(2 + ch.draw(2, "nseq")):
            b = "".join(ch.pick("IXYZ") for _ in range(n))
            if ch.flag(1, 3, "negative"):
                b = "-" + b
            seq.append(b)
        spec["sequence"] = seq
        spec["forced_bits"] = [ch.draw(2, "branch") for _ in seq]
        spec["flush_block"] = [not ch.flag(1, 3, "nonblocking") for _ in seq]
    else:
        n = 1 + ch.draw(3, "nq")
        spec["n"] = n
        bases = "".join(ch.pick("IXYZ") for _ in range(n))
        if ch.flag(1, 3, "negative"):
            bases = "-" + bases
            bump(probes, "parity:negative")
        spec["bases"] = bases
        spec["flush_inside"] = ch.flag(1, 3, "flushinside")
        nonid0 = [b for b in bases.lstrip("-") if b != "I"]
        if not calm and len(nonid0) >= 2 and ch.flag(1, 4, "refused-first"):
            spec["refused_first"] = True
            bump(probes, "parity:ancilla-refused-then-retried")
            bump(faults, "controller-refuses-the-ancilla-allocation")
        if spec["flush_inside"]:
            bump(probes, "flush-inside")
            bump(faults, "flush-between-preparation-and-circuit")
    spec["foreign"] = 0 if calm else ch.weighted([2, 1, 1], "foreign")
    if spec["foreign"]:
        bump(probes, "virtual-ids-differ-from-physical")
    psi = random_vec(ch, spec["n"], kind)
    if call == "set_qubit_state":
        psi = np.array([1, 0], dtype=complex)
    spec["psi"] = psi
    if kind:
        bump(probes, "entangled-input")
    sample = {"call": call, "nv": nv, "n": spec["n"], "bases": spec.get("bases"), "theta": spec.get("theta"),
              "phi": spec.get("phi"), "input": [complex(round(z.real, 4), round(z.imag, 4)) for z in psi]}
    EPS = 1e-9
    nontrivial = bool(kind)
    events = 0
    if call == "parity_sequence":
        # expected values, probability and final state of the sequence of projective measurements along the forced branch
        cur = psi.copy()
        dim = 2 ** spec["n"]
        forced: List[int] = []
        want_bits: List[int] = []
        want_p = 1.0
        for bases, fb in zip(spec["sequence"], spec["forced_bits"]):
            negative = bases.startswith("-")
            letters = bases[1:] if negative else bases
            if all(c == "I" for c in letters):
                want_bits.append(int(negative))
                continue
            P = kron_all([PAULI[c] for c in letters])
            b = fb
            pv = ((np.eye(dim) + (1 if b == 0 else -1) * P) / 2) @ cur
            pb = float(np.real(np.vdot(pv, pv)))
            if pb < 1e-12:       # impossible branch: the memory follows the possible one
                b = 1 - b
                pv = ((np.eye(dim) + (1 if b == 0 else -1) * P) / 2) @ cur
                pb = float(np.real(np.vdot(pv, pv)))
            forced.append(fb)
            want_bits.append(b ^ int(negative))
            want_p *= pb
            cur = pv / math.sqrt(pb)
        sample["sequence"] = spec["sequence"]
        r = one_pass(ch, spec, forced, sample)
        events += len(spec["sequence"])
        bump(probes, "parity:sequence-read-at-the-end")
        if r["value"] != want_bits:
            raise Violation("parity", "parity|sequence|wrong-values-when-read-at-the-end",
                            {"returned": r["value"], "want": want_bits, "forced": forced, **sample})
        if abs(r["prob"] - want_p) > 1e-9:
            raise Violation("parity", "parity|sequence|wrong-probability", {"probability": r["prob"], "want": want_p, **sample})
        if r["state"] is None or fid(r["state"], cur) < 1 - EPS:
            raise Violation("parity", "parity|sequence|wrong-post-state",
                            {"fidelity": None if r["state"] is None else fid(r["state"], cur), **sample})
        if r["live"] != spec["n"]:
            raise Violation("parity", "parity|ancilla-not-released", {"live": r["live"], **sample})
        nontrivial = True
    elif call != "parity_meas":
        r = one_pass(ch, spec, [], sample)
        events += 1
        got = r["state"]
        if got is None:
            raise Violation("state", f"{call}|output-entangled-with-something-else", dict(sample))
        if call == "toffoli":
            want = TOFFOLI @ psi
            thr = 1 - EPS
        elif call == "t_inverse":
            want = TGATE.conj().T @ psi
            thr = 1 - EPS
        else:
            th, ph = spec["theta"], spec["phi"]
            want = np.array([math.cos(th / 2), complex(math.cos(ph), math.sin(ph)) * math.sin(th / 2)], dtype=complex)
            thr = 1 - 1e-7      # (the decomposition leaves at most pi*1e-4 rad per angle: infidelity <= 5e-8)
        f = fid(got, want)
        if f < thr:
            raise Violation("state", f"{call}|wrong-state{'|nv' if nv else ''}", {"fidelity": f, "got": np.round(got, 4).tolist(),
                                                                                  "want": np.round(want, 4).tolist(), **sample})
        if r["live"] != spec["n"]:
            raise Violation("state", f"{call}|qubit-count-changed", {"live": r["live"], **sample})
    else:
        bases = spec["bases"]
        negative = bases.startswith("-")
        letters = bases[1:] if negative else bases
        P = kron_all([PAULI[b] for b in letters])
        dim = 2 ** spec["n"]
        nonid = [b for b in letters if b != "I"]
        bump(probes, "parity:trivial" if not nonid else ("parity:single-qubit-path" if len(nonid) == 1 else "parity:ancilla-path"))
        total = 0.0
        branches = 0
        for b in (0, 1):
            proj = (np.eye(dim) + (1 if b == 0 else -1) * P) / 2
            pv = proj @ psi
            pb = float(np.real(np.vdot(pv, pv)))
            if not nonid:
                # trivial string: no measurement happens; value is the sign bit
                if b == 1:
                    continue
                pb = 1.0
            if pb < 1e-12:
                continue
            branches += 1
            r = one_pass(ch, spec, [b] if nonid else [], sample)
            events += 1
            want_bit = b ^ int(negative) if nonid else int(negative)
            if r["value"] != want_bit:
                raise Violation("parity", f"parity|wrong-value|{'neg' if negative else 'pos'}|{len(nonid)}-non-identity{'|nv' if nv else ''}",
                                {"branch": b, "returned": r["value"], "want": want_bit, **sample})
            if nonid and abs(r["prob"] - pb) > 1e-9:
                raise Violation("parity", f"parity|wrong-probability|{len(nonid)}-non-identity{'|nv' if nv else ''}",
                                {"branch": b, "probability": r["prob"], "want": pb, **sample})
            got = r["state"]
            want = pv / math.sqrt(pb) if nonid else psi
            if got is None or fid(got, want) < 1 - EPS:
                raise Violation("parity", f"parity|wrong-post-state|{len(nonid)}-non-identity{'|nv' if nv else ''}",
                                {"branch": b, "fidelity": None if got is None else fid(got, want),
                                 "got": None if got is None else np.round(got, 4).tolist(), "want": np.round(want, 4).tolist(), **sample})
            if r["live"] != spec["n"]:
                raise Violation("parity", "parity|ancilla-not-released", {"live": r["live"], **sample})
            total += pb
        if nonid and abs(total - 1) > 1e-9:
            raise RuntimeError("oracle: branch probabilities do not add up")
        if branches == 2:
            bump(probes, "parity:both-branches-possible")
            bump(faults, "measurement-branch-forced", 2)
            nontrivial = True
    h = hashlib.blake2b(repr(sample).encode(), digest_size=10).hexdigest()
    sample["input"] = [str(z) for z in sample["input"]]
    return {"digest": h, "fingerprint": h, "nontrivial": nontrivial, "events": events, "sim_ns": 0, "faults": faults,
            "probes": probes, "calm": calm, "sample": sample}


def cleanup() -> None:
    reset_globals()
    SimNetworkInfo.reset()
