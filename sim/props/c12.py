"""C12 -- Controller matches entanglement responses to requests under any interleaving.

Workload (raw NetQASM on one real controller, ghost peers behind the fake link): 1-2
applications, each running subroutines with up to three outstanding requests (1-3 pairs,
create/receive roles, keep/measure types, 1-2 sockets, 1-2 remote nodes) issued before
any wait; optional pre-allocated target qubits freed later ("virtual qubit busy"
deferral); waits on whole arrays, slices, single entries.  The scheduler interleaves
instruction steps, response deliveries (early ones included) and retry timers.
Oracle: a reference matcher over the recorded issue/delivery history + step invariants +
bounded liveness.
"""
from __future__ import annotations

import hashlib
from enum import Enum
from typing import Any, Dict, List, Optional, Tuple

from netqasm.qlink_compat import RequestType

from sim.core import Choices, Discard, Sched, Trace, Violation
from sim.rigs.controller import ControllerNode, subroutine_bytes
from sim.stubs.backend import reset_globals
from sim.stubs.link import FakeLink
from sim.stubs.qmem_trace import TraceQMem

PROP = "C12"
RUNS = {"quick": 10000, "thorough": 1200000}
BUDGET_S = {"quick": 60, "thorough": 1500}
RULE = ("one run = 1-2 applications x 1-2 subroutines with up to three outstanding entanglement requests each, on one real "
        "controller with ghost peers; the seeded scheduler orders instruction steps, link deliveries and retry timers; "
        "non-trivial = at least one race actually occurred (a response delivered before its request was issued, a "
        "response deferred because its virtual qubit was busy, two requests outstanding on one key, or deliveries of "
        "different keys reordered relative to issue order); distinct = distinct interleaving fingerprint + scenario digest")
COMPONENTS = {
    "real": ["Executor: create_epr/recv_epr handlers, request queues, pending-response list, _handle_epr_response, "
             "_extract_epr_info, _store_ent_info, keep-response mapping, wait_all/wait_any/wait_single", "QNodeController "
             "message path, binary deserialisation", "qlink_compat.response_from_qlink_1_0 / request_to_qlink_1_0 / "
             "get_creator_node_id", "shared_memory.Arrays"],
    "stub": ["fake link layer (ghost peers, per-key FIFO, cross-key races)", "retry timer replacing the base class's "
             "unbounded recursion in _wait_to_handle_epr_responses", "trace quantum memory", "scheduler", "scenario generator",
             "reference matcher (oracle)"],
}
ASSUMPTIONS = [
    "within one (remote node, purpose, role) key the link delivers in its own generation order; across keys any order",
    "no message loss/duplication between link and controller (the property promises exactly-once consumption of each "
    "delivered response, not tolerance of a lossy link)",
    "socket ids are unique per node (the executor keys requests by (remote node, purpose) only); keep and measure "
    "requests share a key in a third of the stormy applications -- the remote side then creates in the order in which "
    "this node receives",
    "scenarios are deadlock-free by construction: every pre-allocated qubit is freed before the first wait, every "
    "request is awaited -- in its own subroutine or (runs that do not avoid the recorded finding) in the application's next one",
]
PROBES = ["one-socket-id-towards-two-remote-nodes", "request-outlives-its-subroutine", "purpose-id-differs-from-socket-id", "request-refused-by-stack", "sdk-form", "early-response", "deferred-busy-qubit", "two-requests-one-key", "cross-key-reorder", "wait-polled",
          "wait_any", "wait_single", "create-role", "recv-role", "type-M", "type-K", "legacy-tuples", "qlink-objects",
          "two-apps-concurrent", "retry-fired", "array-addresses-declared-again-by-the-next-subroutine",
          "keep-and-measure-requests-on-one-key", "rsp-with-min-fidelity", "rsp-retried", "malformed-request-refused",
          "subroutine-faulted-after-its-requests", "busy-qubits-freed-after-the-create-answers"]

GHOSTS = [7, 8]
T0, T1, T2, T3, T4 = ("R", 0), ("R", 1), ("R", 2), ("R", 3), ("R", 4)


def emit_array(p: List[tuple], addr: int, values: List[Optional[int]]) -> None:
    p += [("set", T0, len(values)), ("array", T0, addr)]
    for i, v in enumerate(values):
        if v is not None:
            p += [("set", T1, v), ("set", T2, i), ("store", T1, addr, T2)]


REFUSE_TAG = 7777
# (socket id, remote node id) -> purpose id, per node and run; the last one depends on the remote node as well
PMAPS = [lambda s, r=None: s, lambda s, r=None: s + 7, lambda s, r=None: 15 - s, lambda s, r=None: s + 10 * ((r or 0) % 9)]


def install_purpose_map(ch, node, bump=None) -> int:
    k = ch.weighted([2, 1, 1, 1], "pmap")
    node.stack.pfun = PMAPS[k]
    return k


class Req:
    def __init__(self, **kw):
        self.__dict__.update(kw)


def gen_scenario(ch: Choices, calm: bool, tier: str = "quick", avoid: Any = ()) -> Dict[str, Any]:
    deep = (not calm) and tier == "thorough" and ch.flag(1, 2, "deep")   # deeper bounds in half of the thorough runs
    n_apps = 1 if calm else 1 + ch.draw(3 if deep else 2, "napps")
    apps = []
    next_sock = 0
    for a in range(n_apps):
        n_socks = 1 + ch.draw(3 if deep else 2, "nsocks")
        socks = []
        for _ in range(n_socks):
            remote = GHOSTS[ch.draw(2, "remote")]
            # applications number their sockets independently: an id another application already uses may come back,
            # towards a different remote node (requests are keyed by remote node and purpose)
            reuse = [x["sock"] for ap in apps for x in ap["socks"] if x["remote"] != remote
                     and not any(y["sock"] == x["sock"] and y["remote"] == remote for ap2 in apps for y in ap2["socks"])
                     and not any(y["sock"] == x["sock"] for y in socks)]
            if reuse and not calm and ch.flag(1, 3, "reuse-sock-id"):
                sid = reuse[ch.draw(len(reuse), "which-sock")]
                socks.append({"sock": sid, "remote": remote, "rsock": sid + 10, "reused": True})
            else:
                socks.append({"sock": next_sock, "remote": remote, "rsock": next_sock + 10})
                next_sock += 1
        n_subs = 1 + ch.draw(4 if deep else 2, "nsubs")
        subs = []
        addr = 0
        vnext = 0
        # as the SDK does after every flush: each subroutine declares its arrays at the same addresses again
        reuse_addr = (not calm) and ch.flag(1, 3, "reuse-addr")
        # keep and measure requests may share a (socket, role) key (the remote side then creates in the same order)
        mixed_types = (not calm) and "mixed-types-on-one-key" not in avoid and ch.flag(1, 3, "mixed-types")
        for s in range(n_subs):
            if reuse_addr:
                addr = 0
            n_req = 1 + ch.weighted([2, 3, 2, 2, 1] if deep else [2, 3, 2], "nreq")
            reqs = []
            key_type: Dict[Tuple[int, str], str] = {}
            for j in range(n_req):
                so = socks[ch.draw(len(socks), "sock")]
                role = "create" if ch.flag(1, 2, "role") else "recv"
                k = (so["sock"], role)
                tp = (None if mixed_types else key_type.get(k)) or ("K" if ch.flag(3, 5, "type") else "M")
                key_type[k] = tp
                n = 1 + ch.draw(3, "npairs")
                vids = list(range(vnext, vnext + n)) if tp == "K" else []
                vnext += len(vids)
                busy = [v for v in vids if ch.flag(1, 4, "busy")] if not calm else []
                reqs.append(Req(j=j, sock=so["sock"], remote=so["remote"], rsock=so["rsock"], role=role, tp=tp, n=n,
                                vids=vids, busy=busy, q_addr=addr, ent_addr=addr + 1, arg_addr=addr + 2,
                                ghost_delay=ch.draw(600, "ghost-delay") if not calm else 0))
                addr += 3
            filler = ch.draw(8, "filler") if not calm else 0
            waits = []
            for r in reqs:
                w = ch.draw(4, "wait")
                waits.append(w)
            order = list(range(n_req))
            # waits may be performed in any request order
            for i in range(len(order) - 1, 0, -1):
                jx = ch.draw(i + 1, "worder")
                order[i], order[jx] = order[jx], order[i]
            subs.append({"reqs": reqs, "filler": filler, "waits": waits, "order": order, "unit_need": vnext})
        # a request may outlive its subroutine: issued in one, awaited only in the application's next one
        if not calm and "request-outlives-subroutine" not in avoid and not reuse_addr:
            for si in range(len(subs) - 1):
                for r in subs[si]["reqs"]:
                    if not r.busy and ch.flag(1, 6, "outlive"):
                        r.defer_wait = True
        if not calm and ch.flag(1, 5, "refused"):
            # injected fault: one create request, alone in its own subroutine, is refused by the network stack; the
            # subroutine aborts there and nothing of the request may stay behind in the controller
            so = socks[ch.draw(len(socks), "sock")]
            tp = "K" if ch.flag(1, 2, "type") else "M"
            n = 1 + ch.draw(2, "npairs")
            vids = list(range(vnext, vnext + n)) if tp == "K" else []
            vnext += len(vids)
            rr = Req(j=0, sock=so["sock"], remote=so["remote"], rsock=so["rsock"], role="create", tp=tp, n=n, vids=vids, busy=[],
                     q_addr=addr, ent_addr=addr + 1, arg_addr=addr + 2, ghost_delay=0, refuse=True)
            addr += 3
            subs.insert(ch.draw(len(subs), "refpos"), {"reqs": [rr], "filler": 0, "waits": [0], "order": [0], "unit_need": vnext,
                                                         "refused": True})
        if not calm and "faulting-subroutines" not in avoid and ch.flag(1, 6, "malformed"):
            # injected fault: a keep create that names one qubit address too few; the controller refuses it (the subroutine
            # faults there, the application catches it) -- nothing of it may reach the link or stay behind
            so = socks[ch.draw(len(socks), "sock")]
            rr = Req(j=0, sock=so["sock"], remote=so["remote"], rsock=so["rsock"], role="create", tp="K", n=2, vids=[vnext], busy=[],
                     q_addr=addr, ent_addr=addr + 1, arg_addr=addr + 2, ghost_delay=0)
            vnext += 1
            addr += 3
            subs.insert(ch.draw(len(subs) + 1, "malpos"), {"reqs": [rr], "filler": 0, "waits": [0], "order": [0], "unit_need": vnext,
                                                            "malformed": True})
        if not calm and "faulting-subroutines" not in avoid and not reuse_addr and ch.flag(1, 6, "fault-after"):
            # injected fault: a subroutine faults right after it issued its requests (the application catches it and goes
            # on); the requests stay outstanding and their answers must still be consumed, each by its own request
            cands = [sb for sb in subs if not sb.get("refused") and not sb.get("malformed")
                     and not any(getattr(r, "defer_wait", False) for r in sb["reqs"])]
            if cands:
                sb = cands[ch.draw(len(cands), "fapos")]
                sb["fault_after"] = True
                for r in sb["reqs"]:
                    r.busy = []
        for sb in subs:
            # the busy target qubits of receive requests may be freed only after the answers to the create requests were seen
            if not calm and not sb.get("fault_after") and any(r.busy and r.role == "recv" for r in sb["reqs"]) \
                    and any(_unhindered(r, sb["reqs"]) for r in sb["reqs"]) and ch.flag(1, 2, "free-late"):
                sb["free_late"] = True
        apps.append({"id": a, "socks": socks, "subs": subs, "unit": max(vnext, 1), "reuse_addr": reuse_addr and n_subs > 1,
                     "mixed_types": mixed_types})
    return {"apps": apps}


def _unhindered(r: Any, reqs: List[Any]) -> bool:
    """A create request whose answers cannot be held up by a busy target qubit: neither its own nor (answers for one
    key and role are handled in order) one of another create request on its socket."""
    return r.role == "create" and not getattr(r, "defer_wait", False) and not getattr(r, "refuse", False) \
        and not any(x.role == "create" and x.sock == r.sock and x.remote == r.remote and x.busy for x in reqs)


def build_program(sub: Dict[str, Any], carried: Optional[List[Any]] = None) -> List[tuple]:
    p: List[tuple] = []
    reqs: List[Req] = sub["reqs"]
    # requests of the previous subroutine that were left un-awaited there are awaited (and returned) first
    for r in carried or []:
        p += [("set", T0, 0), ("set", T1, 10 * r.n), ("wait_all", r.ent_addr, T0, T1), ("ret_arr", r.ent_addr)]
    for r in reqs:
        if r.tp == "K":
            emit_array(p, r.q_addr, list(r.vids))
        emit_array(p, r.ent_addr, [None] * (10 * r.n))
        if r.role == "create":
            args: List[Optional[int]] = [None] * 20
            args[0] = 0 if r.tp == "K" else 1
            args[1] = r.n
            if getattr(r, "refuse", False):
                args[6] = REFUSE_TAG        # max_time field doubles as the tag the stub stack recognises
            emit_array(p, r.arg_addr, args)
    # pre-allocate some target qubits (they make the keep responses wait)
    for r in reqs:
        for v in r.busy:
            p += [("set", ("Q", 0), v), ("qalloc", ("Q", 0))]
    # issue every request before any wait
    for r in reqs:
        p += [("set", T0, r.remote), ("set", T1, r.sock), ("set", T2, r.q_addr), ("set", T3, r.arg_addr),
              ("set", T4, r.ent_addr)]
        if r.role == "create":
            p.append(("create_epr", T0, T1, T2, T3, T4))
        else:
            p.append(("recv_epr", T0, T1, T2, T4))
    for i in range(sub["filler"]):
        p.append(("set", ("C", 5), i))
    if sub.get("fault_after"):
        p += [("set", T1, 0), ("load", T0, 250, T1)]        # no such array: the subroutine ends here
    early: List[int] = []
    if sub.get("free_late"):
        # first wait for the create requests that are not held up by anything, only then free the busy qubits
        early = [j for j in sub["order"] if _unhindered(reqs[j], reqs)]
        for j in early:
            p += [("set", T0, 0), ("set", T1, 10 * reqs[j].n), ("wait_all", reqs[j].ent_addr, T0, T1)]
    for r in reqs:
        for v in r.busy:
            p += [("set", ("Q", 0), v), ("qfree", ("Q", 0))]
    # waits, in the drawn request order, in the drawn form, then a closing wait_all per request
    for j in sub["order"]:
        r = reqs[j]
        if getattr(r, "defer_wait", False):
            continue
        w = sub["waits"][j]
        if w == 1:
            p += [("set", T0, 0), ("set", T1, 10 * r.n), ("wait_any", r.ent_addr, T0, T1)]
        elif w == 2:
            p += [("set", T0, 10 * r.n - 1), ("wait_single", r.ent_addr, T0)]
        elif w == 3 and r.n > 1:
            p += [("set", T0, 10), ("set", T1, 20), ("wait_all", r.ent_addr, T0, T1)]
        p += [("set", T0, 0), ("set", T1, 10 * r.n), ("wait_all", r.ent_addr, T0, T1)]
    for r in reqs:
        if not getattr(r, "defer_wait", False):
            p.append(("ret_arr", r.ent_addr))
    return p


def expected_slice(d: Dict[str, Any]) -> List[int]:
    """The array slice a delivered response must produce, computed from the link's own
    record of the pair (not through the repository's conversion)."""
    rec = d["rec"]
    job = rec["job"]
    role = d["role"]
    dflag = 0 if role == "create" else 1
    remote = d["remote"]
    purpose = d["purpose"]
    resp = d["resp"]
    good = getattr(resp, "goodness")
    if job["type"] == RequestType.K or (job["type"] == RequestType.R and role == "recv"):
        phys = rec["phys_c"] if role == "create" else rec["phys_r"]
        tgood = getattr(resp, "time_of_goodness", None)
        if tgood is None:
            tgood = getattr(resp, "goodness_time")
        return [0, job["create_id"], phys, dflag, rec["seq"], purpose, remote, good, tgood, rec["bell"].value]
    out = rec["out_c"] if role == "create" else rec["out_r"]
    basis = rec["basis_c"] if role == "create" else rec["basis_r"]
    return [1, job["create_id"], out, basis.value, dflag, rec["seq"], purpose, remote, good, rec["bell"].value]


def run_sdk(ch: Choices, opts: Dict[str, Any], calm: bool) -> Dict[str, Any]:
    """Second form: two real nodes, each a real SDK host + controller; the requests come from EPRSocket calls."""
    import traceback

    from netqasm.sdk.epr_socket import EPRSocket

    from sim.models.epr_ref import EprMonitor
    from sim.stubs.connection import SimConnection, SimNetworkInfo

    SimNetworkInfo.reset()
    trace = Trace()
    mode = "time" if calm else ch.pick(["mix", "time"])
    sched = Sched(ch, trace, mode=mode, max_cost=0 if calm else 40)
    legacy = ch.flag(1, 3, "legacy")
    link = FakeLink(ch, sched, trace, legacy=legacy, max_gen_delay=0 if calm else 400, max_deliver_delay=0 if calm else 400)
    link.eager = (not calm) and ch.flag(1, 4, "eager-link")   # the first pair may be answered from inside put()
    nodes = [ControllerNode(f"n{i}", i, TraceQMem(lambda q: 0), lambda: sched.now, flavour="vanilla", link=link) for i in (0, 1)]
    pk = [install_purpose_map(ch, nd) for nd in nodes]
    faults: Dict[str, int] = {}
    probes: Dict[str, int] = {}
    if any(pk):
        probes["purpose-id-differs-from-socket-id"] = 1

    def bump(d, k, n=1):
        d[k] = d.get(k, 0) + n

    bump(probes, "sdk-form")
    bump(probes, "legacy-tuples" if legacy else "qlink-objects")
    SimNetworkInfo.node_ids.update({"n0": 0, "n1": 1})
    SimNetworkInfo.app_nodes.update({"alice": "n0", "bob": "n1"})
    n_socks = 1 + ch.draw(2, "nsocks")
    # per socket: a sequence of requests (creator side, type, pairs); both hosts keep this order per socket
    per_sock: List[List[tuple]] = []
    for s_id in range(n_socks):
        seq = []
        tp_of: Dict[int, str] = {}
        for _ in range(1 + ch.draw(2, "nreq")):
            creator = ch.draw(2, "creator")
            tp = tp_of.get(creator) or ("K" if ch.flag(1, 2, "tp") else "M")
            if not calm and "rsp-with-retries" not in opts.get("avoid", ()) and tp_of.get(creator) is None and ch.flag(1, 5, "rsp"):
                tp = "R"
            tp_of[creator] = tp
            if tp == "R":
                # remote state preparation with a minimum-fidelity constraint: both hosts wrap the request in a re-try
                # loop; `slow` says which attempts the link reports as too slow (the last one never is: what happens when
                # every attempt fails is C09's recorded finding)
                tries = 1 + ch.draw(3, "tries")
                slow = [ch.flag(1, 2, "slow") for _ in range(tries)]
                slow[-1] = False
                seq.append((creator, tp, 1 + ch.draw(2, "np"), 50 + ch.draw(51, "fid"), tries, slow))
            else:
                seq.append((creator, tp, 1 + ch.draw(3, "np")))
        per_sock.append(seq)

    def interleave() -> List[tuple]:
        idx = [0] * n_socks
        out = []
        while any(idx[i] < len(per_sock[i]) for i in range(n_socks)):
            cands = [i for i in range(n_socks) if idx[i] < len(per_sock[i])]
            i = cands[ch.draw(len(cands), "ilv")]
            out.append((i,) + per_sock[i][idx[i]])
            idx[i] += 1
        return out

    # both hosts follow one global order of the requests: with a blocking flush after each operation any other
    # choice can make the two programs wait for each other (a property of the programs, not of the controller)
    order = interleave()
    plans = [order, list(order)]
    flush_each = [ch.flag(1, 3, "fe"), ch.flag(1, 3, "fe")]
    sample = {"form": "sdk", "sockets": n_socks, "plans": plans, "flush_after_each_op": flush_each, "legacy": legacy}
    tail = lambda: [list(map(str, e)) for e in trace.events[-40:]]  # noqa: E731
    mons = [EprMonitor(nodes[i], link, lambda k, i=i: bump(probes, k), tail) for i in (0, 1)]
    state = {"done": 0}
    # durations the link reports for the attempts of the re-tried requests, per (creator, purpose) in issue order
    rsp_plans: Dict[Tuple[int, int], List[List[int]]] = {}
    for (s_id, creator, tp, n, *more) in order:
        if tp != "R":
            continue
        fid, tries, slow = more
        maxt = 100_000 - fid * 900          # the documented conversion of the fidelity bound into a duration
        for a in range(slow.index(False) + 1):
            last = maxt + 1 + ch.draw(3, "over") if slow[a] else max(0, maxt - ch.draw(3, "under"))
            rsp_plans.setdefault((creator, nodes[creator].stack.pfun(s_id, 1 - creator)), []).append(
                [ch.draw(2 * maxt, "dur") for _ in range(n - 1)] + [last])
        bump(probes, "rsp-with-min-fidelity")
        if slow.index(False) > 0:
            bump(probes, "rsp-retried")
            bump(faults, "link-reports-slow-generation", slow.index(False))

    def goodness(job, k):
        rq = job.get("request")
        if rq is None or rq.type != RequestType.R:
            return None
        if "plan" not in job:
            pl = rsp_plans.get((job["creator"], job["purpose_c"]))
            job["plan"] = pl.pop(0) if pl else None
        return None if job["plan"] is None or k >= len(job["plan"]) else job["plan"][k]
    link.goodness_override = goodness

    def host(i: int):
        me, peer = ("alice", "bob") if i == 0 else ("bob", "alice")
        socks = [EPRSocket(peer, epr_socket_id=s, remote_epr_socket_id=s) for s in range(n_socks)]
        conn = SimConnection(me, nodes[i], max_qubits=5, epr_sockets=socks)

        def drain():
            g = conn.drain()
            while True:
                try:
                    y = next(g)
                except StopIteration:
                    return
                except Violation:
                    raise
                except Exception as e:  # noqa: BLE001
                    fr = traceback.extract_tb(e.__traceback__)[-1]
                    raise Violation("controller", f"sdk-form|controller-fault|{type(e).__name__}|{fr.name}",
                                    {"node": i, "error": str(e)[:300], **sample})
                yield y

        for (s_id, creator, tp, n, *more) in plans[i]:
            sk = socks[s_id]
            try:
                if tp == "R":
                    fid, tries, slow = more
                    if creator == i:
                        sk.create_rsp(number=n, min_fidelity_all_at_end=fid, max_tries=tries)
                    else:
                        for q in sk.recv_rsp(number=n, min_fidelity_all_at_end=fid, max_tries=tries):
                            q.measure()
                elif tp == "K":
                    qs = sk.create_keep(number=n) if creator == i else sk.recv_keep(number=n)
                    for q in qs:
                        q.measure()
                else:
                    if creator == i:
                        sk.create_measure(number=n)
                    else:
                        sk.recv_measure(number=n)
            except Violation:
                raise
            except Exception as e:  # noqa: BLE001
                fr = traceback.extract_tb(e.__traceback__)[-1]
                raise Violation("sdk", f"sdk-form|sdk-exception|{type(e).__name__}|{fr.name}", {"error": str(e)[:300], **sample})
            trace.add("op", i, s_id, creator, tp, n)
            if flush_each[i]:
                conn.flush()
                yield from drain()
            yield None
        conn.flush()
        yield from drain()
        state["done"] += 1

    for i in (0, 1):
        sched.spawn(f"host{i}", host(i), party=f"host{i}")
    done = lambda: state["done"] == 2  # noqa: E731
    for i in (0, 1):
        sched.spawn(f"retry{i}", nodes[i].retry_task(done, ch, 150), party=f"ctrl{i}")

    def on_error(task, e):
        fr = traceback.extract_tb(e.__traceback__)[-1]
        raise Violation("controller", f"sdk-form|fault-on-delivery|{type(e).__name__}|{fr.name}",
                        {"task": task.name, "error": str(e)[:300], **sample})
    sched.on_error = on_error
    from sim.rigs.controller import LivenessWatch
    watch = LivenessWatch(sched, nodes, link, window=8000, hard=400000)
    while not done():
        if sched.step() is None:
            raise Violation("liveness", "liveness|deadlock|sdk-form", {"trace": tail(), **sample})
        for m in mons:
            m.check_step()
        stuck = watch.verdict()
        if stuck:
            raise Violation("liveness", f"liveness|{stuck}|sdk-form", {"trace": tail(), **sample})
    link.stop()
    for m in mons:
        m.final()
    for nd in nodes:
        if nd.env.qmem.errors:
            raise Violation("remap", "remap|memory|" + nd.env.qmem.errors[0].split(" ")[0], {"errors": nd.env.qmem.errors[:3], **sample})
    rc = sum(nd.env.retry_count for nd in nodes)
    if rc:
        bump(probes, "retry-fired")
        bump(faults, "retry-timer-fired", rc)
    for k in ("early-response", "cross-key-reorder", "two-requests-one-key"):
        if probes.get(k):
            bump(faults, {"early-response": "response-before-request", "cross-key-reorder": "cross-key-reorder",
                          "two-requests-one-key": "two-requests-outstanding-on-one-key"}[k], probes[k])
    nontrivial = any(probes.get(k) for k in ("early-response", "two-requests-one-key", "cross-key-reorder"))
    wd = hashlib.blake2b(repr(plans).encode(), digest_size=6).hexdigest()
    return {"digest": trace.digest(), "fingerprint": sched.fingerprint() + wd, "nontrivial": bool(nontrivial),
            "events": sched.steps, "sim_ns": sched.now, "faults": _with_link(faults, link), "probes": probes, "calm": calm, "sample": sample}


def _with_link(faults: Dict[str, int], link: Any) -> Dict[str, int]:
    for k in ("answered-from-inside-put",):
        if link.counters.get(k):
            faults[k] = faults.get(k, 0) + link.counters[k]
    return faults


def run(ch: Choices, opts: Dict[str, Any]) -> Dict[str, Any]:
    reset_globals()
    trace = Trace()
    calm = ch.flag(1, 10, "calm")
    if ch.flag(1, 4, "sdk-form"):
        return run_sdk(ch, opts, calm)
    mode = "time" if calm or ch.flag(1, 2, "mode") else "mix"
    sched = Sched(ch, trace, mode=mode, max_cost=0 if calm else 40)
    qm = TraceQMem(lambda q: 0)
    legacy = ch.flag(1, 3, "legacy")
    slow_link = ch.flag(1, 4, "slow-link")
    link = FakeLink(ch, sched, trace, legacy=legacy,
                    max_gen_delay=0 if calm else (3000 if slow_link else 300),
                    max_deliver_delay=0 if calm else (3000 if slow_link else 300))
    link.eager = (not calm) and ch.flag(1, 4, "eager-link")   # the first pair may be answered from inside put()
    node = ControllerNode("n0", 0, qm, lambda: sched.now, flavour="vanilla", link=link)
    pk = [install_purpose_map(ch, node)]
    node.stack.refuse = lambda req: getattr(req, "max_time", 0) == REFUSE_TAG
    node.env.slow_clear = (not calm) and ch.flag(1, 3, "slow-clear")    # qfree is suspended while the qubit is cleared
    ex = node.ex
    faults: Dict[str, int] = {}
    probes: Dict[str, int] = {}
    if any(pk):
        probes["purpose-id-differs-from-socket-id"] = 1

    def bump(d, k, n=1):
        d[k] = d.get(k, 0) + n

    bump(probes, "legacy-tuples" if legacy else "qlink-objects")
    sc = gen_scenario(ch, calm, tier=opts.get("tier", "quick"), avoid=opts.get("avoid", ()))
    if len(sc["apps"]) > 1:
        bump(probes, "two-apps-concurrent")
    if slow_link:
        bump(faults, "slow-link")

    issued: List[Dict[str, Any]] = []       # in issue order
    state = {"done": 0, "last_delivery_step": 0, "freeing": set()}

    # ---- monitors ---------------------------------------------------------
    def after_instr(exr, sid, pc, command):
        mn = command.mnemonic
        aid = exr._get_app_id(sid)
        if mn in ("create_epr", "recv_epr"):
            remote = exr._get_register(aid, command.remote_node_id)
            sock = exr._get_register(aid, command.epr_socket_id)
            ent = exr._get_register(aid, command.ent_results_array)
            qa = exr._get_register(aid, command.qubit_addr_array)
            if ent not in exr._app_arrays[aid]._arrays:
                raise Violation("issue", f"issue|request-accepted-without-a-result-array|{mn}",
                                {"app": aid, "pc": pc, "array": ent, "trace": _tail(trace)})
            n = len(exr._app_arrays[aid]._arrays[ent]) // 10
            role = "create" if mn == "create_epr" else "recv"
            purpose = node.stack.pfun(sock, remote)
            key = (role, remote, purpose)
            rq = exr._epr_create_requests if role == "create" else exr._epr_recv_requests
            if len(rq[(remote, purpose)]) > 1:
                bump(probes, "two-requests-one-key")
            early = sum(1 for d in link.delivered if (d["role"], d["remote"], d["purpose"]) == key) - \
                sum(x["n"] for x in issued if x["key"] == key)
            if early > 0:
                bump(probes, "early-response")
                bump(faults, "response-before-request", early)
            issued.append({"key": key, "app": aid, "sid": sid, "ent": ent, "qa": qa, "n": n, "filled": 0,
                           "order": len(issued), "step": sched.seq,
                           "vids": list(exr._app_arrays[aid]._arrays.get(qa) or [])})
            bump(probes, role + "-role")
            trace.add("issue", aid, role, remote, sock, n)
        elif mn == "ret_arr":
            # what the host gets for a request is what its array holds when it is returned (the address may be declared
            # again by the application's next subroutine)
            a_ret = command.address.address
            for x in reversed(issued):
                if x["app"] == aid and x["ent"] == a_ret:
                    x.setdefault("snapshot", list(exr._app_arrays[aid]._arrays[a_ret]))
                    break
        elif mn in ("wait_all", "wait_any", "wait_single"):
            arrs = exr._app_arrays[aid]._arrays
            if mn == "wait_single":
                i = exr._get_register(aid, command.entry.index)
                w_addr = command.entry.address.address
                if w_addr not in arrs or not (0 <= i < len(arrs[w_addr])):
                    raise Violation("wait", f"wait|resumed-before-condition|{mn}",
                                    {"app": aid, "pc": pc, "array": w_addr, "index": i, "trace": _tail(trace)})
                vals = [arrs[w_addr][i]]
                ok = vals[0] is not None
                need = i // 10 + 1
                bump(probes, "wait_single")
            else:
                a0 = exr._get_register(aid, command.slice.start)
                a1 = exr._get_register(aid, command.slice.stop)
                w_addr = command.slice.address.address
                if w_addr not in arrs:
                    raise Violation("wait", f"wait|resumed-before-condition|{mn}",
                                    {"app": aid, "pc": pc, "array": w_addr, "trace": _tail(trace)})
                vals = arrs[w_addr][a0:a1]
                ok = all(v is not None for v in vals) if mn == "wait_all" else any(v is not None for v in vals)
                need = (a1 + 9) // 10 if mn == "wait_all" else a0 // 10 + 1
                if mn == "wait_any":
                    bump(probes, "wait_any")
            if not ok:
                raise Violation("wait", f"wait|resumed-before-condition|{mn}",
                                {"app": aid, "pc": pc, "values": vals, "trace": _tail(trace)})
            # ... and defined by the answers to THIS request: when exactly one booked request of the application writes
            # into the awaited array, it must have consumed the pairs the wait covers (pairs fill their slices in order)
            booked = []
            for reqs in list(exr._epr_create_requests.values()) + list(exr._epr_recv_requests.values()):
                for r in reqs:
                    sub_r = exr._subroutines.get(r.subroutine_id)
                    if sub_r is not None and sub_r.app_id == aid and r.ent_results_array_address == w_addr:
                        booked.append(r)
            if len(booked) == 1 and booked[0].tot_pairs - booked[0].pairs_left < need:
                raise Violation("wait", f"wait|resumed-before-its-request-was-answered|{mn}",
                                {"app": aid, "pc": pc, "array": w_addr, "pairs_consumed": booked[0].tot_pairs - booked[0].pairs_left,
                                 "pairs_awaited": need, "trace": _tail(trace)})

    node.env.after_instr.append(after_instr)

    def before_instr(exr, sid, pc, command):
        # a qfree that is suspended in a slow clear has already unmapped its qubit when the instruction event arrives
        if command.mnemonic == "qfree":
            aid2 = exr._get_app_id(sid)
            state["freeing"].add((aid2, exr._get_register(aid2, command.reg)))
    node.env.before_instr.append(before_instr)

    def unit_maps() -> Dict[Tuple[int, int], int]:
        return {(aid, v): p for aid, um in ex._qubit_unit_modules.items() for v, p in enumerate(um) if p is not None}

    def pre_delivery(n, resp, qk, rec):
        state["pend_before"] = len(ex._pending_epr_responses)

    def post_delivery(n, resp, qk, rec):
        state["last_delivery_step"] = sched.steps
        if len(ex._pending_epr_responses) > state["pend_before"]:
            # not consumed now: either no request yet or the qubit is busy
            key = (qk[1], qk[2], qk[3])
            rq = ex._epr_create_requests if qk[1] == "create" else ex._epr_recv_requests
            has_req = len(rq[(qk[2], qk[3])]) > 0
            if has_req and rec["job"]["type"] == RequestType.K:
                bump(probes, "deferred-busy-qubit")
                bump(faults, "deferred-virtual-qubit-busy")
        tp = rec["job"]["type"]
        bump(probes, "type-K" if tp == RequestType.K else "type-M")

    node.pre_delivery.append(pre_delivery)
    node.post_delivery.append(post_delivery)

    def check_step(prev_map: Dict[Tuple[int, int], int], freed: Optional[Tuple[int, int]]) -> Dict[Tuple[int, int], int]:
        cur = unit_maps()
        for kx, p in prev_map.items():
            q = cur.get(kx)
            if q is not None and q != p:
                raise Violation("remap", "remap|allocated-virtual-qubit-overwritten",
                                {"qubit": kx, "from": p, "to": q, "trace": _tail(trace)})
            if q is None and kx != freed and kx not in state["freeing"]:
                raise Violation("remap", "remap|virtual-qubit-vanished", {"qubit": kx, "trace": _tail(trace)})
            if q is None:
                state["freeing"].discard(kx)
        for reqs in list(ex._epr_create_requests.values()) + list(ex._epr_recv_requests.values()):
            for r in reqs:
                if not (0 < r.pairs_left <= r.tot_pairs):
                    raise Violation("queue", "queue|pairs-left-out-of-range",
                                    {"pairs_left": r.pairs_left, "tot": r.tot_pairs, "trace": _tail(trace)})
        if qm.errors:
            raise Violation("remap", "remap|memory|" + qm.errors[0].split(" ")[0], {"errors": qm.errors[:3],
                                                                                  "trace": _tail(trace)})
        if set(ex._used_physical_qubit_addresses) != set(cur.values()):
            raise Violation("remap", "remap|used-physical-set-differs-from-mapped-set",
                            {"used": sorted(ex._used_physical_qubit_addresses), "mapped": sorted(cur.values()), "trace": _tail(trace)})
        return cur

    # ---- host tasks -------------------------------------------------------
    if any(len({r.tp for s2 in app["subs"] for r in s2["reqs"] if (r.sock, r.role) == k2}) > 1
           for app in sc["apps"] if app.get("mixed_types")
           for k2 in {(r.sock, r.role) for s2 in app["subs"] for r in s2["reqs"]}):
        bump(probes, "keep-and-measure-requests-on-one-key")
    if any(sb.get("free_late") for app in sc["apps"] for sb in app["subs"]):
        bump(probes, "busy-qubits-freed-after-the-create-answers")
    if any(app.get("reuse_addr") for app in sc["apps"]):
        bump(probes, "array-addresses-declared-again-by-the-next-subroutine")
    if any(so.get("reused") for app in sc["apps"] for so in app["socks"]):
        bump(probes, "one-socket-id-towards-two-remote-nodes")
    for app in sc["apps"]:
        node.init_app(app["id"], app["unit"])
        for so in app["socks"]:
            node.open_socket(app["id"], so["sock"], so["remote"], so["rsock"])

    ghost_fifo: Dict[Tuple[int, int], List[Any]] = {}

    def ghost_task(r: Req, ordered: bool = False):
        if ordered:
            # the remote node creates in the order in which this node receives (keep and measure requests share the key)
            fifo = ghost_fifo.setdefault((r.remote, r.sock), [])
            fifo.append(r)          # (at spawn time: see ghost_spawn)
        return _ghost_body(r, fifo if ordered else None)

    def _ghost_body(r: Req, fifo: Any):
        ordered = fifo is not None
        yield ("sleep", r.ghost_delay)
        if ordered:
            yield ("block", lambda: fifo[0] is r)
            fifo.pop(0)
        link.submit(creator=r.remote, receiver=0, purpose_c=r.rsock, purpose_r=r.sock,
                    tp=RequestType.K if r.tp == "K" else RequestType.M, number=r.n)

    def app_task(app):
        aid = app["id"]
        carried: List[Any] = []
        # the remote side creates in the order in which this node receives whenever that order can matter: requests of
        # different types share a key, or a request can still be outstanding when the next subroutine issues its own
        ordered_ghosts = bool(app.get("mixed_types")) or any(
            sb.get("fault_after") or any(getattr(r, "defer_wait", False) for r in sb["reqs"]) for sb in app["subs"])
        for k, sub in enumerate(app["subs"]):
            prog = build_program(sub, carried)
            carried = [r for r in sub["reqs"] if getattr(r, "defer_wait", False)]
            if carried:
                bump(probes, "request-outlives-its-subroutine")
            g = node.handle_raw(subroutine_bytes(prog, aid, node.flavour))
            for r in sub["reqs"]:
                if r.role == "recv":
                    sched.spawn(f"ghost{aid}.{k}.{r.j}", ghost_task(r, ordered_ghosts), party="link")
            while True:
                try:
                    y = next(g)
                except StopIteration:
                    break
                except Violation:
                    raise
                except Exception as e:  # noqa: BLE001
                    if sub.get("refused") and "simulated fault" in str(e):
                        bump(faults, "network-stack-refuses-request")
                        bump(probes, "request-refused-by-stack")
                        trace.add("refused", aid, k)
                        break
                    if "simulated fault" in str(e):
                        # the stub stack refuses only the one request that carries the tag: another request reached it
                        # with that field
                        raise Violation("fault", "fault|stack-refused-a-request-that-did-not-carry-the-tag",
                                        {"app": aid, "sub": k, "error": str(e)[:200], "trace": _tail(trace)})
                    if sub.get("malformed") and isinstance(e, AssertionError) and str(e).startswith("At line") \
                            and "Not enough qubit addresses" in str(e):
                        bump(faults, "controller-refuses-malformed-request")
                        bump(probes, "malformed-request-refused")
                        trace.add("malformed", aid, k)
                        break
                    if sub.get("fault_after") and str(e).startswith("At line") and prog[_line_of(e)][0] == "load":
                        bump(faults, "subroutine-faults-with-requests-outstanding")
                        bump(probes, "subroutine-faulted-after-its-requests")
                        trace.add("faulted", aid, k)
                        state["orphans"] = True
                        break
                    raise
                if isinstance(y, tuple) and y and y[0] == "instr":
                    op = prog[y[2]]
                    state["freed"] = (aid, ex._get_register(aid, _reg(op[1]))) if op[0] == "qfree" else None
                    if op[0] in ("create_epr", "recv_epr", "qalloc", "qfree", "wait_all", "wait_any", "wait_single"):
                        trace.add("i", aid, k, y[2], op[0])
                elif isinstance(y, tuple) and y and y[0] == "wait":
                    bump(probes, "wait-polled")
                yield y
            yield None
        if any(sb.get("fault_after") for sb in app["subs"]):
            # the answers to the requests of the subroutine that died are still to come
            def _answered() -> bool:
                for reqs in list(ex._epr_create_requests.values()) + list(ex._epr_recv_requests.values()):
                    for r in reqs:
                        sb = ex._subroutines.get(r.subroutine_id)
                        if sb is not None and sb.app_id == aid:
                            return False
                return not ex._pending_epr_responses
            yield ("block", _answered)
        state["done"] += 1

    def _line_of(e: Exception) -> int:
        try:
            return int(str(e).split(":", 1)[0].split()[-1])
        except Exception:  # noqa: BLE001
            return -1

    def _reg(t):
        from sim.rigs.controller import R
        return R(t)

    for app in sc["apps"]:
        sched.spawn(f"app{app['id']}", app_task(app), party=f"app{app['id']}")
    all_done = lambda: state["done"] == len(sc["apps"])  # noqa: E731
    sched.spawn("retry", node.retry_task(all_done, ch, max_delay=200), party="ctrl-retry")

    prev = unit_maps()
    cap = 30000
    state["freed"] = None
    while not all_done():
        t = sched.step()
        if t is None:
            raise Violation("liveness", "liveness|deadlock", {"trace": _tail(trace),
                                                               "pending": len(ex._pending_epr_responses)})
        prev = check_step(prev, state.get("freed"))
        state["freed"] = None
        if link.idle() and sched.steps - state["last_delivery_step"] > 4000:
            raise Violation("liveness", "liveness|no-progress-after-last-delivery",
                            {"trace": _tail(trace), "pending": len(ex._pending_epr_responses)})
        if sched.steps > cap:
            raise Discard("scheduler step cap")
    link.stop()

    # ---- reference matcher over the recorded history -----------------------
    slots: Dict[Tuple[str, int, int], List[Tuple[dict, int]]] = {}
    for x in issued:
        for kk in range(x["n"]):
            slots.setdefault(x["key"], []).append((x, kk))
    per_key: Dict[Tuple[str, int, int], int] = {}
    seen_slices = set()
    # cross-key reorder probe: deliveries not in issue order of their requests
    last_order = -1
    for d in link.delivered:
        key = (d["role"], d["remote"], d["purpose"])
        j = per_key.get(key, 0)
        per_key[key] = j + 1
        if key not in slots or j >= len(slots[key]):
            raise Violation("matcher", "matcher|response-without-request", {"key": key, "trace": _tail(trace)})
        x, kk = slots[key][j]
        if x["order"] < last_order:
            bump(probes, "cross-key-reorder")
            bump(faults, "cross-key-reorder")
        last_order = max(last_order, x["order"])
        want = expected_slice(d)
        arr = x.get("snapshot") or ex._app_arrays[x["app"]]._arrays[x["ent"]]
        got = arr[10 * kk:10 * (kk + 1)]
        if got != want:
            cls = "wrong-slice" if any(arr[10 * q:10 * (q + 1)] == want for q in range(x["n"])) else "wrong-content"
            raise Violation("matcher", f"matcher|{cls}|{d['role']}|{'K' if want[0] == 0 else 'M'}",
                            {"key": key, "request": {k2: v for k2, v in x.items()}, "pair": kk, "got": got, "want": want,
                             "trace": _tail(trace)})
        sl = (x["app"], x["ent"], x["order"], kk)
        if sl in seen_slices:
            raise Violation("matcher", "matcher|slice-filled-twice", {"slice": sl, "trace": _tail(trace)})
        seen_slices.add(sl)
        if want[0] == 0:
            # keep pair: the request's k-th virtual id maps to the delivered physical id
            vid = x["vids"][kk]
            um = ex._qubit_unit_modules[x["app"]]
            if um[vid] != want[2]:
                raise Violation("matcher", "matcher|keep-qubit-mapped-wrongly",
                                {"virtual": vid, "mapped": um[vid], "want": want[2], "trace": _tail(trace)})
    total_slots = sum(len(v) for v in slots.values())
    if len(link.delivered) != total_slots:
        raise Violation("matcher", "matcher|requests-finished-with-missing-responses",
                        {"delivered": len(link.delivered), "slots": total_slots, "trace": _tail(trace)})
    left = [k for k, v in list(ex._epr_create_requests.items()) + list(ex._epr_recv_requests.items()) if v]
    if left or ex._pending_epr_responses:
        raise Violation("queue", "queue|not-empty-when-quiescent",
                        {"requests": left, "pending": len(ex._pending_epr_responses), "trace": _tail(trace)})

    if node.env.retry_count:
        bump(probes, "retry-fired")
        bump(faults, "retry-timer-fired", node.env.retry_count)
    nontrivial = any(probes.get(k) for k in ("early-response", "deferred-busy-qubit", "two-requests-one-key",
                                             "cross-key-reorder"))
    wd = hashlib.blake2b(repr([[(r.__dict__) for r in s["reqs"]] for a in sc["apps"] for s in a["subs"]]).encode(),
                         digest_size=6).hexdigest()
    return {
        "digest": trace.digest(), "fingerprint": sched.fingerprint() + wd, "nontrivial": bool(nontrivial),
        "events": sched.steps, "sim_ns": sched.now, "faults": _with_link(faults, link), "probes": probes, "calm": calm,
        "sample": {"config": {"apps": len(sc["apps"]), "mode": mode, "calm": calm, "legacy": legacy, "slow_link": slow_link},
                   "requests": [[{k: v for k, v in r.__dict__.items() if k in ("sock", "remote", "role", "tp", "n", "vids", "busy")}
                                 for r in s["reqs"]] for a in sc["apps"] for s in a["subs"]],
                   "history_head": [list(map(str, e)) for e in trace.events[:50]]},
    }


def _tail(trace: Trace, n: int = 50) -> List[Any]:
    return [list(map(str, e)) for e in trace.events[-n:]]


def cleanup() -> None:
    reset_globals()
    from sim.stubs.connection import SimNetworkInfo
    SimNetworkInfo.reset()
