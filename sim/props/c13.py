"""C13 -- Qubit memory is safe and applications are isolated on the controller.

Workload: histories over up to three application ids on one real controller:
register (1-4 qubits), subroutines biased to qalloc/qfree/array/store/ret plus keep-type
recv_epr blocks served by the fake link, stop, re-register of a stopped id.  Each
application id is a host task; the scheduler interleaves all tasks per instruction, so
stop/register of one id lands while others are mid-subroutine, and keep responses arrive
at any point.  Invariants after every event (I1 injective virtual->physical map over all
apps, I2 used-set == mapped set, I3 isolation of the non-acting apps, I4 stop releases
everything and the id can be registered again from an empty state).
"""
from __future__ import annotations

import hashlib
from typing import Any, Dict, List, Optional, Tuple

from netqasm.qlink_compat import RequestType

from sim.core import Choices, Discard, Sched, Trace, Violation
from sim.props.c04 import Gen
from sim.rigs.controller import ControllerNode, subroutine_bytes
from sim.stubs.backend import reset_globals
from sim.stubs.link import FakeLink
from sim.stubs.qmem_trace import TraceQMem

PROP = "C13"
RUNS = {"quick": 12000, "thorough": 800000}
BUDGET_S = {"quick": 60, "thorough": 1500}
RULE = ("one run = history of register / subroutine / keep-delivery / stop / re-register events over 1-3 application "
        "ids on one real controller, interleaved per instruction by the seeded scheduler; non-trivial = a lifecycle "
        "event (stop or register) of one application fired while another application's subroutine was in flight, or "
        "a keep response was mapped while another application held qubits; distinct = distinct interleaving "
        "fingerprint + workload digest")
COMPONENTS = {
    "real": ["QNodeController message handlers (init/stop/subroutine/open socket)", "Executor allocation, free, "
             "stop_application, EPR keep-response mapping, unit modules", "SharedMemoryManager", "qlink_compat conversions"],
    "stub": ["fake link layer with ghost remote creators", "trace quantum memory", "scheduler", "program generator"],
}
ASSUMPTIONS = [
    "an application is stopped only between its own subroutines (as BaseNetQASMConnection.close does)",
    "keep responses carry physical ids from a range the executor's own allocator never reaches, so a collision can "
    "only be the controller's doing",
    "programs with entanglement blocks are well-formed (ids free, every request awaited); random tails may fault",
]
PROBES = ["stop-suspended-in-clear", "qfree-suspended-in-clear", "duplicate-registration", "keep-response-deferred-busy", "stop-during-foreign-subroutine", "init-during-foreign-subroutine", "reinit-after-stop", "keep-mapped",
          "keep-mapped-while-other-app-holds-qubits", "program-fault-in-one-app", "three-apps", "qfree", "qalloc"]

BIAS = [3, 1, 1, 3, 4, 2, 1, 1, 2, 1, 2, 2, 6, 5, 2]
STEP_CAP = 120


def epr_block(aid: int, n_pairs: int, remote: int, sock: int, base_addr: int, busy: int = 0, filler: int = 0) -> List[tuple]:
    """Raw NetQASM: receive n keep pairs into virtual qubits 0..n-1 and wait for all.  The first `busy` target
    qubits are allocated beforehand and freed only after the request was issued, so responses that arrive in
    between have to wait for their virtual qubit."""
    qa, ea = base_addr, base_addr + 1
    p: List[tuple] = []
    for i in range(busy):
        p += [("set", ("Q", 2), i), ("qalloc", ("Q", 2))]
    p += [("set", ("R", 5), n_pairs), ("array", ("R", 5), qa)]
    for i in range(n_pairs):
        p += [("set", ("R", 6), i), ("set", ("R", 7), i), ("store", ("R", 6), qa, ("R", 7))]
    p += [("set", ("R", 5), 10 * n_pairs), ("array", ("R", 5), ea),
          ("set", ("R", 8), remote), ("set", ("R", 9), sock), ("set", ("R", 10), qa), ("set", ("R", 11), ea),
          ("recv_epr", ("R", 8), ("R", 9), ("R", 10), ("R", 11))]
    for i in range(filler):
        p.append(("set", ("C", 14), i))
    for i in range(busy):
        p += [("set", ("Q", 2), i), ("qfree", ("Q", 2))]
    p += [("set", ("R", 6), 0), ("set", ("R", 7), 10 * n_pairs), ("wait_all", ea, ("R", 6), ("R", 7))]
    return p


def run(ch: Choices, opts: Dict[str, Any]) -> Dict[str, Any]:
    reset_globals()
    avoid = opts.get("avoid", set())
    trace = Trace()
    calm = ch.flag(1, 10, "calm")
    # thorough tier: half of the runs use deeper bounds (more applications, epochs and subroutines per history)
    deep = (not calm) and opts.get("tier") == "thorough" and ch.flag(1, 2, "deep")
    n_apps = 1 if calm else 1 + ch.draw(5 if deep else 3, "napps")
    mode = "time" if calm or ch.flag(1, 3, "mode") else "mix"
    sched = Sched(ch, trace, mode=mode, max_cost=0 if calm else 60)
    qm = TraceQMem(lambda q: 0)
    link = FakeLink(ch, sched, trace, legacy=ch.flag(1, 3, "legacy"),
                    max_gen_delay=0 if calm else 400, max_deliver_delay=0 if calm else 400)
    node = ControllerNode("n0", 0, qm, lambda: sched.now, flavour="vanilla", link=link)
    node.env.slow_clear = (not calm) and ch.flag(1, 2, "slow-clear")
    link.phys_from_executor = (not calm) and ch.flag(1, 3, "phys-from-executor")
    ex = node.ex
    faults: Dict[str, int] = {}
    probes: Dict[str, int] = {}

    def bump(d, k, n=1):
        d[k] = d.get(k, 0) + n

    def guard(exr, sid, pc, command):
        # keep random programs inside the explored bound (an `array` of 2^31 entries is a memory bomb)
        if command.mnemonic == "array":
            n = exr._get_register(exr._get_app_id(sid), command.size)
            if n is not None and not (0 <= n <= 64):
                raise _Abandon()
    node.env.before_instr.append(guard)

    if n_apps == 3:
        bump(probes, "three-apps")
    GHOST = 7
    state = {"in_flight": set(), "acting": None, "done": 0, "stopping": {}}
    wl = []

    apps = []
    for a in range(n_apps):
        epochs = 1 + (0 if "reinit" in avoid else ch.weighted([2, 2, 2, 1, 1] if deep else [3, 3, 1], "epochs"))
        ep = []
        for e in range(epochs):
            # (now and then an application without any qubit: classical work only)
            unit = 0 if (not calm and ch.flag(1, 10, "unit0")) else 1 + ch.draw(4, "unit")
            n_subs = 1 + ch.draw(8 if deep else 3, "nsubs")
            g = Gen(ch, unit, plant=ch.flag(1, 3, "plant"), weights=BIAS)
            progs = []
            for k in range(n_subs):
                body = g.program(first=(k == 0))
                npairs = 0
                if k == 0 and unit > 0 and ch.flag(1, 2, "epr"):
                    npairs = 1 + ch.draw(unit, "npairs")
                    busy = ch.draw(npairs + 1, "busy") if ch.flag(1, 2, "busyflag") else 0
                    blk = epr_block(a, npairs, GHOST, a, 20, busy=busy, filler=ch.draw(10, "filler") if busy else 0)
                    # the block's qubits are allocated by the link; tell the shadow state
                    off = len(blk)
                    body = [_shift(t, off) for t in body]
                    body = blk + body
                    for i in range(npairs):
                        g.shadow.qubits.add(i)
                progs.append((body, npairs))
            dup = ch.draw(n_subs, "dupat") if (not calm and "duplicate-init" not in avoid and ch.flag(1, 8, "dupinit")) else None
            ep.append({"unit": unit, "progs": progs, "dup_init_after": dup, "dup_unit": 1 + ch.draw(4, "dupunit")})
        apps.append({"id": a, "epochs": ep})
        wl.append(repr(ep))

    # ---- invariants -------------------------------------------------------
    def check_global(where: str) -> None:
        seen: Dict[int, Tuple[int, int]] = {}
        for aid, um in ex._qubit_unit_modules.items():
            for v, p in enumerate(um):
                if p is None:
                    continue
                if p in seen:
                    raise Violation("I1", f"I1|two-virtual-qubits-one-physical|{where}",
                                    {"physical": p, "a": seen[p], "b": (aid, v), "trace": _tail(trace)})
                seen[p] = (aid, v)
        used = set(ex._used_physical_qubit_addresses)
        # an application that is being stopped right now (its stop is suspended in a slow clear) has lost its map
        # already while its not-yet-cleared qubits are still marked: those are not judged until the stop has finished
        limbo = set().union(*state["stopping"].values()) if state["stopping"] else set()
        # physical qubits the link reserved through the executor for pairs that are not mapped yet
        if link.reserved.get(0):
            link.reserved[0] -= set(seen)          # mapped now: an ordinary allocated qubit from here on
            limbo |= link.reserved[0]
        if used - limbo != set(seen) - limbo:
            kind = "leaked" if used - set(seen) else "unmarked"
            raise Violation("I2", f"I2|used-set-{kind}|{where}",
                            {"used": sorted(used), "mapped": sorted(seen), "trace": _tail(trace)})
        if qm.errors:
            raise Violation("I1", "I1|memory|" + qm.errors[0].split(" ")[0] + f"|{where}",
                            {"errors": qm.errors[:4], "trace": _tail(trace)})

    def snap_all() -> Dict[int, Any]:
        return {aid: node.app_snapshot(aid) for aid in list(ex._registers)}

    def check_isolation(before: Dict[int, Any], acting: Optional[int], where: str) -> None:
        after = snap_all()
        for aid in set(before) | set(after):
            if aid == acting:
                continue
            if before.get(aid) != after.get(aid):
                raise Violation("I3", f"I3|foreign-state-changed|{where}",
                                {"acting": acting, "victim": aid, "before": before.get(aid), "after": after.get(aid),
                                 "trace": _tail(trace)})

    def epr_owner_apps() -> set:
        owners = set()
        for reqs in list(ex._epr_recv_requests.values()) + list(ex._epr_create_requests.values()):
            for r in reqs:
                sub = ex._subroutines.get(r.subroutine_id)
                if sub is not None:
                    owners.add(sub.app_id)
        return owners

    # deliveries / retries may only touch apps that have an outstanding request
    def pre_delivery(n, resp, qk, rec):
        state["pend0"] = len(ex._pending_epr_responses)
        state["snap"] = snap_all()
        state["owners"] = epr_owner_apps() | {rec["job"]["purpose_r"]}

    def post_delivery(n, resp, qk, rec):
        if len(ex._pending_epr_responses) > state.get("pend0", 0) and rec["job"]["type"] == RequestType.K and \
                ex._epr_recv_requests.get((qk[2], qk[3])):
            bump(probes, "keep-response-deferred-busy")
            bump(faults, "keep-response-deferred-virtual-qubit-busy")
        after = snap_all()
        for aid in set(state["snap"]) | set(after):
            if aid in state["owners"]:
                continue
            if state["snap"].get(aid) != after.get(aid):
                raise Violation("I3", "I3|foreign-state-changed|delivery",
                                {"victim": aid, "owners": sorted(state["owners"]), "trace": _tail(trace)})
        check_global("delivery")

    node.pre_delivery.append(pre_delivery)
    node.post_delivery.append(post_delivery)

    def on_keep_mapped(aid: int) -> None:
        bump(probes, "keep-mapped")
        if any(any(p is not None for p in um) for other, um in ex._qubit_unit_modules.items() if other != aid):
            bump(probes, "keep-mapped-while-other-app-holds-qubits")

    # ---- host task per application id --------------------------------------
    def app_task(app):
        aid = app["id"]
        for e, ep in enumerate(app["epochs"]):
            # register
            before = snap_all()
            if state["in_flight"] - {aid}:
                bump(probes, "init-during-foreign-subroutine")
            try:
                node.init_app(aid, ep["unit"])
            except Exception as x:  # noqa: BLE001
                if e > 0:
                    raise Violation("I4", f"I4|reinit-after-stop-fails|{type(x).__name__}",
                                    {"app": aid, "error": str(x)[:200], "trace": _tail(trace)})
                raise
            if e > 0:
                bump(probes, "reinit-after-stop")
            trace.add("init", aid, ep["unit"])
            check_isolation(before, aid, "init")
            s0 = node.app_snapshot(aid)
            if s0 != ((), (), (), (), tuple([None] * ep["unit"]), True):
                raise Violation("I4", "I4|fresh-app-not-empty", {"app": aid, "state": s0, "trace": _tail(trace)})
            node.open_socket(aid, aid, GHOST, aid)
            yield None
            for k, (prog, npairs) in enumerate(ep["progs"]):
                raw = subroutine_bytes(prog, aid, node.flavour)
                g = node.handle_raw(raw)
                if npairs:
                    # the ghost peer issues the matching create at a drawn time
                    link.submit(creator=GHOST, receiver=0, purpose_c=aid, purpose_r=aid, tp=RequestType.K, number=npairs)
                state["in_flight"].add(aid)
                nsteps = 0
                mapped_before = sum(1 for p in node.unit_module(aid) if p is not None)
                while True:
                    before = snap_all()
                    try:
                        y = next(g)
                    except StopIteration:
                        break
                    except Violation:
                        raise
                    except _Abandon:
                        bump(probes, "abandoned-out-of-bound-array")
                        break
                    except Exception as x:  # noqa: BLE001 -- program fault: an observation
                        bump(faults, "program-fault-in-one-app")
                        bump(probes, "program-fault-in-one-app")
                        trace.add("fault", aid, k, type(x).__name__)
                        check_isolation(before, aid, "fault")
                        check_global("fault")
                        break
                    check_isolation(before, aid, "instr")
                    check_global("instr")
                    if isinstance(y, tuple) and y and y[0] == "clear":
                        bump(probes, "qfree-suspended-in-clear")
                        bump(faults, "instruction-suspended-in-slow-clear")
                    if isinstance(y, tuple) and y and y[0] == "instr":
                        op = prog[y[2]][0] if y[2] < len(prog) else "?"
                        trace.add("i", aid, k, y[2], op)
                        if op in ("qalloc", "qfree"):
                            bump(probes, op)
                        nsteps += 1
                        if nsteps >= STEP_CAP:
                            g.close()
                            break
                    mapped_now = sum(1 for p in node.unit_module(aid) if p is not None)
                    yield y
                state["in_flight"].discard(aid)
                if ep.get("dup_init_after") == k:
                    # a second registration of an id that is still registered must be refused without touching anything
                    before = snap_all()
                    refused = False
                    try:
                        node.init_app(aid, ep["dup_unit"])
                    except Exception:  # noqa: BLE001 -- the refusal
                        refused = True
                    bump(faults, "duplicate-registration-of-a-live-application")
                    bump(probes, "duplicate-registration")
                    trace.add("dup-init", aid)
                    after = snap_all()
                    if after != before:
                        who = [a2 for a2 in set(before) | set(after) if before.get(a2) != after.get(a2)]
                        raise Violation("I4", f"I4|duplicate-registration-changed-state|{'refused' if refused else 'accepted'}",
                                        {"app": aid, "changed": who, "before": {a2: before.get(a2) for a2 in who},
                                         "after": {a2: after.get(a2) for a2 in who}, "trace": _tail(trace)})
                    check_global("dup-init")
                yield None
            # wait until nothing of this app is outstanding, then stop it
            if _has_requests(ex, aid):
                yield ("block", lambda: not _has_requests(ex, aid))
            um = list(node.unit_module(aid))
            before = snap_all()
            if state["in_flight"] - {aid}:
                bump(probes, "stop-during-foreign-subroutine")
                bump(faults, "stop-while-other-app-mid-subroutine")
            gstop = node.stop_app_gen(aid)
            state["stopping"][aid] = {p for p in um if p is not None}
            while True:
                # (with a slow clear the stop is suspended once per qubit: the other applications run meanwhile)
                before = snap_all()
                try:
                    ys = next(gstop)
                except StopIteration:
                    break
                check_isolation(before, aid, "stop")
                if node.env.slow_clear:
                    bump(probes, "stop-suspended-in-clear")
                    yield ys
            state["stopping"].pop(aid, None)
            trace.add("stop", aid)
            check_isolation(before, aid, "stop")
            check_global("stop")
            left = [nm for nm, d in (("registers", ex._registers), ("arrays", ex._app_arrays),
                                     ("shared-memory", ex._shared_memories), ("unit-module", ex._qubit_unit_modules))
                    if aid in d]
            if left:
                raise Violation("I4", "I4|state-left-after-stop|" + ",".join(left), {"app": aid, "trace": _tail(trace)})
            # (a qubit released early in a suspended stop may already belong to another application again)
            others = {p2 for a2, um2 in ex._qubit_unit_modules.items() for p2 in um2 if p2 is not None}
            for a2, lim in state["stopping"].items():
                others |= lim          # ... or to one that is itself being stopped right now
            others |= set(link.reserved.get(0, ()))   # ... or hold a pair the link has generated meanwhile
            held = [p for p in um if p is not None and p in qm.live and p not in others]
            if held:
                raise Violation("I4", "I4|physical-qubits-not-released", {"app": aid, "held": held, "trace": _tail(trace)})
            yield None
        state["done"] += 1

    for app in apps:
        sched.spawn(f"app{app['id']}", app_task(app), party=f"app{app['id']}")
    all_done = lambda: state["done"] == len(apps)  # noqa: E731
    sched.spawn("retry", node.retry_task(all_done, ch), party="ctrl-retry")

    # keep-mapped probe via delivery hook
    def post2(n, resp, qk, rec):
        if rec["job"]["type"] == RequestType.K:
            on_keep_mapped(rec["job"]["purpose_r"])
    node.post_delivery.append(post2)

    cap = 5000
    while not all_done():
        t = sched.step()
        if t is None:
            raise Discard("deadlock (program overwrote its own wait or ids)")
        if sched.steps > cap:
            raise Discard("scheduler step cap")
    link.stop()
    check_global("end")
    nontrivial = any(probes.get(k) for k in ("stop-during-foreign-subroutine", "init-during-foreign-subroutine",
                                             "keep-mapped-while-other-app-holds-qubits"))
    wd = hashlib.blake2b("".join(wl).encode(), digest_size=6).hexdigest()
    for k, v in link.counters.items():
        if k.startswith("bell:"):
            continue
        bump(faults, k, v)
    if ex is not None and node.env.retry_count:
        bump(faults, "retry-timer-fired", node.env.retry_count)
    return {
        "digest": trace.digest(), "fingerprint": sched.fingerprint() + wd, "nontrivial": bool(nontrivial),
        "events": sched.steps, "sim_ns": sched.now, "faults": faults, "probes": probes, "calm": calm,
        "sample": {"config": {"apps": n_apps, "mode": mode, "calm": calm, "legacy_tuples": link.legacy},
                   "history_head": [list(map(str, e)) for e in trace.events[:60]]},
    }


class _Abandon(BaseException):
    pass


def _shift(t: tuple, off: int) -> tuple:
    if t[0] in ("beq", "bne", "blt", "bge"):
        return (t[0], t[1], t[2], t[3] + off)
    if t[0] in ("bez", "bnz"):
        return (t[0], t[1], t[2] + off)
    if t[0] == "jmp":
        return ("jmp", t[1] + off)
    return t


def _has_requests(ex, aid: int) -> bool:
    for reqs in list(ex._epr_recv_requests.values()) + list(ex._epr_create_requests.values()):
        for r in reqs:
            sub = ex._subroutines.get(r.subroutine_id)
            if sub is not None and sub.app_id == aid:
                return True
    return False


def _tail(trace: Trace, n: int = 40) -> List[Any]:
    return [list(map(str, e)) for e in trace.events[-n:]]


def cleanup() -> None:
    reset_globals()
