"""C08 -- NV transpilation preserves program behaviour, not only gates.

Twin simulation: a vanilla subroutine "of the kind the SDK emits" (every gate preceded by
the `set` of its qubit registers; gates inside LOOP / IF_EXIT label shapes; a branch
target just past the end; measurements feeding branches and arrays) runs on a vanilla
executor, its NVSubroutineTranspiler output runs on an NV executor, from the same
injected quantum state and with the same stream of collapse draws.  At the end classical
memory must be identical and the quantum state of the program's qubits equal up to global
phase; every crot_* must be issued with the electron (virtual id 0) as control and a
carbon as target.
"""
from __future__ import annotations

import copy
import hashlib
import math
import traceback
from typing import Any, Dict, List, Optional, Tuple

import numpy as np

from netqasm.backend.messages import SubroutineMessage
from netqasm.lang.instr import NVFlavour, VanillaFlavour
from netqasm.lang.parsing import deserialize
from netqasm.lang.subroutine import Subroutine
from netqasm.sdk.transpile import NVSubroutineTranspiler
from netqasm.runtime import settings

from sim.core import Choices, Discard, Sched, Trace, Violation
from sim.rigs.controller import ControllerNode, subroutine_bytes, to_instr
from sim.stubs.backend import reset_globals
from sim.stubs.qmem_sv import SVQMem, Universe

PROP = "C08"
RUNS = {"quick": 3000, "thorough": 300000}
BUDGET_S = {"quick": 60, "thorough": 1500}
RULE = ("one run = a generated vanilla subroutine (2-3 qubits incl. the electron, 4-40 instructions: SDK-style gates, "
        "measurements, loops, conditionals, end label) + injected input state + collapse-draw stream; executed as is on a "
        "vanilla executor and transpiled on an NV executor; non-trivial = the program contains a branch that crosses at "
        "least one expanded gate (so that retargeting matters) or a carbon-carbon gate; distinct = distinct (program, "
        "input state) digest")
COMPONENTS = {
    "real": ["NVSubroutineTranspiler.transpile (index map, retargeting, end no-op, Q-register tracking, scratch electron "
             "register, every gate expansion)", "writes_to() of the instruction classes", "binary codec for both flavours",
             "QNodeController + Executor on both sides"],
    "stub": ["two state-vector universes fed by one list of collapse draws", "state injection", "program generator"],
}
ASSUMPTIONS = [
    "state-vector universe sim/stubs/qmem_sv.py is the trusted semantics of vanilla and NV instructions (crot_P(theta) = "
    "|0><0| R_P(theta) + |1><1| R_P(-theta)); mov is a state transfer: its source qubit is excluded from the comparison "
    "until re-initialised",
    "virtual qubit 0 (the electron) is allocated for the whole subroutine (C09 records what happens otherwise)",
    "Q registers (scratch electron register) and C15 (end no-op) are excluded from the classical comparison",
]
PROBES = ["sdk-emitted", "sdk-nv-config", "branch-crosses-expansion", "carbon-carbon-gate", "end-label-target", "loop", "if", "measure-feeds-branch",
          "debug-on", "three-qubits", "s-or-t-gate", "q-register-by-load", "carbon-carbon-burst", "q-register-live-across-carbon-gate", "hardware-setting-on", "label-directly-on-a-gate"]

G1 = ["x", "y", "z", "h", "k", "s", "t"]
Q = [("Q", 0), ("Q", 1)]


class ProgGen:
    def __init__(self, ch: Choices, n_qubits: int, avoid: set):
        self.ch = ch
        self.n = n_qubits
        self.avoid = avoid
        self.kinds: set = set()
        self.label_past_end = False
        self.fixed: Optional[Tuple[int, int]] = None   # (Q0, Q1) set once at the top, never rewritten

    def gate(self) -> List[tuple]:
        ch = self.ch
        k = ch.weighted([5, 2, 3], "gk")
        if self.fixed is not None:
            # gates stand alone (no `set` in front): a label can sit directly on a gate
            if k == 0:
                g = G1[ch.draw(len(G1), "g1")]
                if g in ("s", "t"):
                    self.kinds.add("s-or-t-gate")
                return [(g, ("Q", ch.draw(2, "fq")))]
            if k == 1:
                return [("rot_" + ch.pick(["x", "y", "z"]), ("Q", ch.draw(2, "fq")), ch.draw(32, "n"), ch.draw(5, "d"))]
            if 0 not in self.fixed:
                self.kinds.add("carbon-carbon-gate")
            r0 = ch.draw(2, "fdir")
            return [(ch.pick(["cnot", "cphase"]), ("Q", r0), ("Q", 1 - r0))]
        if k == 0:
            g = G1[ch.draw(len(G1), "g1")]
            if g in ("s", "t"):
                self.kinds.add("s-or-t-gate")
            q = ch.draw(self.n, "q")
            return self.setq(("Q", 0), q) + [(g, ("Q", 0))]
        if k == 1:
            q = ch.draw(self.n, "q")
            return self.setq(("Q", 0), q) + [("rot_" + ch.pick(["x", "y", "z"]), ("Q", 0), ch.draw(32, "n"), ch.draw(5, "d"))]
        a = ch.draw(self.n, "qa")
        b = ch.draw(self.n - 1, "qb")
        b = b if b < a else b + 1
        if a != 0 and b != 0:
            self.kinds.add("carbon-carbon-gate")
        return self.setq(("Q", 0), a) + self.setq(("Q", 1), b) + [(ch.pick(["cnot", "cphase"]), ("Q", 0), ("Q", 1))]

    def setq(self, reg, v) -> List[tuple]:
        if "q-reg-by-load" not in self.avoid and self.ch.flag(1, 12, "qload"):
            # the qubit id comes from an array entry (e.g. a FutureQubit): the register is written by `load`
            self.kinds.add("q-register-by-load")
            return [("set", ("R", 9), v), ("load", reg, 7, ("R", 9))]
        return [("set", reg, v)]

    def meas(self, mreg: int) -> List[tuple]:
        if self.fixed is not None:
            return [("meas", ("Q", self.ch.draw(2, "fq")), ("M", mreg))]
        q = self.ch.draw(self.n, "mq")
        return self.setq(("Q", 0), q) + [("meas", ("Q", 0), ("M", mreg))]

    def block(self, depth: int) -> List[tuple]:
        """A relocatable block (branch targets relative to its start, fixed up by the caller)."""
        ch = self.ch
        out: List[tuple] = []
        for _ in range(1 + ch.draw(4, "nb")):
            k = ch.weighted([6, 2, 2 if depth < 2 else 0, 2 if depth < 2 else 0], "bk")
            if k == 0:
                out += self.gate()
            elif k == 1:
                out += self.meas(ch.draw(2, "mreg"))
                if ch.flag(1, 2, "store"):
                    out += [("set", ("R", 8), ch.draw(4, "slot")), ("store", ("M", out[-1][2][1]), 0, ("R", 8))]
            elif k == 2:
                # IF shape: <load/branch over body> body IF_EXIT:
                body = self.block(depth + 1)
                cond = ch.pick(["bez", "bnz", "beq", "bne", "blt", "bge"])
                self.kinds.add("if")
                if cond in ("bez", "bnz"):
                    out += [(cond, ("M", ch.draw(2, "mreg")), ("rel", len(body) + 1))] + body
                    self.kinds.add("measure-feeds-branch")
                else:
                    out += [("set", ("R", 7), ch.draw(2, "cv")), (cond, ("M", ch.draw(2, "mreg")), ("R", 7), ("rel", len(body) + 1))] + body
                    self.kinds.add("measure-feeds-branch")
            else:
                # LOOP shape: set i 0; LOOP: beq i n EXIT; body; add i i 1; jmp LOOP; EXIT:
                body = self.block(depth + 1)
                n = 1 + ch.draw(3, "ln")
                r = ("R", depth)
                self.kinds.add("loop")
                out += [("set", r, 0), ("set", ("C", depth), n), ("beq", r, ("C", depth), ("rel", len(body) + 4))] + body + \
                       [("set", ("C", 10), 1), ("add", r, r, ("C", 10)), ("jmp", ("rel", -(len(body) + 3)))]
        return out

    def program(self) -> List[tuple]:
        if self.ch.flag(1, 6, "fixedq"):
            # both qubit registers are set once at the top and never rewritten: every gate stands alone, so branch
            # targets (an if's exit label) fall directly on gates, including multi-instruction expansions
            a = self.ch.draw(self.n, "fa")
            b = self.ch.draw(self.n - 1, "fb")
            b = b if b < a else b + 1
            self.fixed = (a, b)
            self.kinds.add("label-directly-on-a-gate")
            body = [("set", ("Q", 0), a), ("set", ("Q", 1), b)] + self.block(0) + self.block(0)
        else:
            body = self.block(0)
        if self.fixed is None and self.n >= 3 and self.ch.flag(1, 6, "liveq"):
            # a third qubit register, written by `load` only and *not* used by any gate, stays live across a
            # carbon-carbon gate (whose expansion borrows a scratch register) and is read by a measurement afterwards
            self.kinds.add("q-register-live-across-carbon-gate")
            self.kinds.add("carbon-carbon-gate")
            q = self.ch.draw(self.n, "liveqid")
            body += [("set", ("R", 9), q), ("load", ("Q", 2), 7, ("R", 9)),
                     ("set", ("Q", 0), 1), ("set", ("Q", 1), 2), (self.ch.pick(["cnot", "cphase"]), ("Q", 0), ("Q", 1)),
                     ("meas", ("Q", 2), ("M", 1)), ("set", ("R", 8), 3), ("store", ("M", 1), 0, ("R", 8))]
        if self.fixed is None and self.n >= 3 and self.ch.flag(1, 12, "ccburst"):
            # a long run of carbon-carbon gates: every one borrows the electron through a scratch register
            self.kinds.add("carbon-carbon-burst")
            self.kinds.add("carbon-carbon-gate")
            for _ in range(16 + self.ch.draw(6, "nburst")):
                a, b = (1, 2) if self.ch.flag(1, 2, "dir") else (2, 1)
                body += [("set", ("Q", 0), a), ("set", ("Q", 1), b), (self.ch.pick(["cnot", "cphase"]), ("Q", 0), ("Q", 1))]
        # optionally end with a conditional whose exit label is just past the end
        if self.ch.flag(1, 3, "endlabel"):
            tail = self.gate()
            body += [("bez", ("M", 0), ("rel", len(tail) + 1))] + tail
            self.label_past_end = True
        # make measurement registers defined before any branch reads them
        pre = [("set", ("M", 0), 0), ("set", ("M", 1), 0), ("set", ("R", 8), 4), ("array", ("R", 8), 0),
               ("set", ("R", 8), self.n), ("array", ("R", 8), 7)]
        for i in range(self.n):
            pre += [("set", ("R", 8), i), ("set", ("R", 9), i), ("store", ("R", 8), 7, ("R", 9))]
        prog = pre + body + [("ret_reg", ("M", 0)), ("ret_reg", ("M", 1)), ("ret_arr", 0)]
        # resolve relative targets
        out = []
        for i, t in enumerate(prog):
            t2 = tuple((i + x[1]) if (isinstance(x, tuple) and len(x) == 2 and x[0] == "rel") else x for x in t)
            out.append(t2)
        if self.label_past_end:
            # the tail's exit label must be the very end: drop the returns after it for this shape
            n_ret = 3
            out = out[:-n_ret]
        return out


def crosses_expansion(prog: List[tuple]) -> bool:
    for i, t in enumerate(prog):
        if t[0] in ("bez", "bnz", "beq", "bne", "blt", "bge", "jmp"):
            tgt = t[-1]
            lo, hi = (i, tgt) if tgt > i else (tgt, i)
            if any(prog[j][0] in G1 + ["cnot", "cphase", "mov"] for j in range(lo, min(hi, len(prog)))):
                return True
    return False


class StepCap(Exception):
    pass


class Side:
    def __init__(self, tag: str, flavour: str, us: List[float], init: bool = True):
        self.tag = tag
        i = {"n": 0}

        def u():
            v = us[i["n"] % len(us)]
            i["n"] += 1
            return v

        self.uni = Universe(u)
        self.qm = SVQMem(self.uni, 0)
        self.node = ControllerNode("n" + tag, 0, self.qm, lambda: 0, flavour=flavour, with_stack=False)
        if init:
            self.node.init_app(0, 4)
        self.garbage: set = set()

    def run_bytes(self, raw: bytes, cap: int = 12000) -> None:
        n = 0
        for _ in self.node.handle_raw(raw):
            n += 1
            if n > cap:
                raise StepCap()

    def run_obj(self, sub: Subroutine) -> None:
        for _ in self.node.ex.execute_subroutine(sub):
            pass


SDK_ALLOW = {"qblock", "qubit", "gate", "rot", "measure", "array", "loop", "loop-start-step", "if", "add", "flush", "empty-body"}


def run_sdk(ch: Choices, opts: Dict[str, Any], calm: bool) -> Dict[str, Any]:
    """Workload (a): the vanilla subroutines are the ones the real SDK emits for a generated host program; every
    flushed subroutine runs as is on the vanilla side and transpiled on the NV side."""
    from netqasm.backend.messages import MessageType
    from netqasm.sdk.build_types import GenericHardwareConfig, NVHardwareConfig
    from netqasm.sdk.qubit import Qubit

    from sim.models.host_ref import HostGen
    from sim.rigs.host import SdkDriver
    from sim.stubs.connection import SimConnection, SimNetworkInfo

    SimNetworkInfo.reset()
    nvcfg = (not calm) and ch.flag(1, 2, "nvcfg")
    budget = 3 + ch.draw(2, "budget")
    us = [ch.u01("collapse") for _ in range(64)]
    faults: Dict[str, int] = {}
    probes: Dict[str, int] = {}

    def bump(d, k, c=1):
        d[k] = d.get(k, 0) + c

    bump(probes, "sdk-emitted")
    if nvcfg:
        bump(probes, "sdk-nv-config")
    V = Side("V", "vanilla", us, init=False)
    N = Side("N", "nv", us, init=False)
    vf = VanillaFlavour()

    class TwinConn(SimConnection):
        def _commit_serialized_message(self, raw_msg, block=True, callback=None):
            tp = raw_msg[0]
            if tp in (MessageType.INIT_NEW_APP.value, MessageType.OPEN_EPR_SOCKET.value):
                N.node.run_raw_now(raw_msg)
            return super()._commit_serialized_message(raw_msg, block, callback)

    hwc = NVHardwareConfig(budget) if nvcfg else GenericHardwareConfig(budget)
    conn = TwinConn("app", V.node, max_qubits=budget, hardware_config=hwc)
    drv = SdkDriver(conn)
    # with an NV hardware config the SDK relocates qubits at build time: only meaningful in straight-line code
    gen = HostGen(ch, max_qubits=budget - (2 if nvcfg else 1), avoid={"regfuture-in-body", "rewrite-after-read"},
                  allow=SDK_ALLOW - ({"loop", "if", "empty-body"} if nvcfg else set()), max_depth=1 if calm else 2, max_top=4 if calm else 9, xflush=(0, 1) if calm else (1, 4))
    prog = gen.program()
    sample = {"form": "sdk-emitted", "nv_config": nvcfg, "budget": budget, "program": prog}
    tags = "|sdk-emitted" + ("|nv-config" if nvcfg else "")
    n_sub = 0
    crossing = False
    try:
        drv.qubits["qe"] = Qubit(conn)      # the electron: virtual id 0 stays allocated (see ASSUMPTIONS)
        prog = prog[:-1] + [("measure", "qe", ("new", "fe"), False), ("flush",)]
        for st in prog:
            drv.exec(st)
            if st[0] != "flush":
                continue
            while conn.outbox:
                raw = conn.outbox.pop(0)
                if raw[0] != MessageType.SUBROUTINE.value:
                    continue
                n_sub += 1
                try:
                    V.run_bytes(raw)
                except StepCap:
                    raise RuntimeError("generator produced a non-terminating program")
                except Violation:
                    raise
                except Exception as e:  # noqa: BLE001
                    raise Discard("the SDK-emitted vanilla subroutine faults on the vanilla executor (C09's business): "
                                  + type(e).__name__)
                sub = deserialize(raw[1:], flavour=vf)
                vprog_len = len(sub.instructions)
                tsub = NVSubroutineTranspiler(sub).transpile()
                if len(tsub.instructions) != vprog_len and any(i.mnemonic in ("beq", "bne", "blt", "bge", "bez", "bnz", "jmp")
                                                                for i in tsub.instructions):
                    crossing = True
                try:
                    N.run_bytes(bytes(SubroutineMessage(tsub)))
                except StepCap:
                    raise Violation("twin", f"nv-side-does-not-terminate{tags}", {"transpiled": str(tsub)[:3000], **sample})
                except Violation:
                    raise
                except Exception as e:  # noqa: BLE001
                    if "address 0 was not allocated" in str(e):
                        raise Discard("electron not allocated (C09's recorded finding)")
                    raise Violation("twin", f"nv-side-faults|{type(e).__name__}{tags}",
                                    {"error": str(e)[:300], "transpiled": str(tsub)[:3000], **sample})
                _compare(V, N, tags, {"subroutine": n_sub, "transpiled": str(tsub)[:2500], **sample})
    except (Violation, Discard):
        raise
    except Exception as e:  # noqa: BLE001
        import traceback as tb
        fr = tb.extract_tb(e.__traceback__)[-1]
        if fr.filename.startswith("/verif"):
            raise
        raise Violation("twin", f"sdk-or-vanilla-side-exception|{type(e).__name__}|{fr.name}{tags}", {"error": str(e)[:300], **sample})
    if crossing:
        bump(probes, "branch-crosses-expansion")
    h = hashlib.blake2b(repr((prog, nvcfg, budget)).encode(), digest_size=10).hexdigest()
    bump(faults, "collapse-draws-shared-by-twins", V.uni.nmeas)
    return {"digest": h + str(V.uni.nmeas), "fingerprint": h, "nontrivial": bool(crossing), "events": n_sub, "sim_ns": 0,
            "faults": faults, "probes": probes, "calm": calm,
            "sample": {"form": "sdk-emitted", "nv_config": nvcfg, "budget": budget, "program": prog[:14]}}


def _compare(V: "Side", N: "Side", tags: str, sample: Dict[str, Any]) -> None:
    errs = V.uni.errors + V.qm.errors + N.uni.errors + N.qm.errors
    if errs:
        raise Violation("twin", f"memory|{errs[0].split(' ')[0]}{tags}", {"errors": errs[:3], **sample})
    for (a, b) in N.node.env.crot_virtual:
        if a != 0 or b == 0:
            raise Violation("twin", f"crot-not-electron-controlled{tags}", {"control": a, "target": b, **sample})
    rv = {k: v for k, v in V.node.regs(0).items() if k[0] != "Q" and k != ("C", 15)}
    rn = {k: v for k, v in N.node.regs(0).items() if k[0] != "Q" and k != ("C", 15)}
    if rv != rn:
        diff = {str(k): (rv.get(k), rn.get(k)) for k in set(rv) | set(rn) if rv.get(k) != rn.get(k)}
        raise Violation("twin", f"classical-registers-differ{tags}", {"diff(vanilla,nv)": diff, **sample})
    if V.node.arrays(0) != N.node.arrays(0):
        raise Violation("twin", f"arrays-differ{tags}", {"vanilla": V.node.arrays(0), "nv": N.node.arrays(0), **sample})
    if V.node.allocated(0) != N.node.allocated(0):
        raise Violation("twin", f"allocated-qubits-differ{tags}", {"vanilla": V.node.allocated(0), "nv": N.node.allocated(0), **sample})
    ids = V.node.allocated(0)
    if not ids:
        return
    sv = V.uni.statevector([(0, V.node.unit_module(0)[i]) for i in ids])
    sn = N.uni.statevector([(0, N.node.unit_module(0)[i]) for i in ids])
    if sv is None or sn is None:
        raise Violation("twin", f"state-not-pure{tags}", dict(sample))
    f = float(abs(np.vdot(sv, sn)) ** 2)
    if f < 1 - 1e-9:
        raise Violation("twin", f"quantum-state-differs{tags}", {"fidelity": f, **sample})


def run(ch: Choices, opts: Dict[str, Any]) -> Dict[str, Any]:
    reset_globals()
    avoid = set(opts.get("avoid", ()))
    calm = ch.flag(1, 10, "calm")
    if ch.flag(1, 3, "sdk-emitted"):
        return run_sdk(ch, opts, calm)
    n = 2 if calm else 2 + ch.draw(2, "nq")
    gen = ProgGen(ch, n, avoid | ({"q-reg-by-load"} if calm else set()))
    prog = gen.program()
    # the recorded debug finding needs a branch or jump; branch-free programs are transpiled with debug=True in every run
    branchy = any(t[0] in ("bez", "bnz", "beq", "bne", "blt", "bge", "jmp") for t in prog)
    debug = (not calm) and ch.flag(1, 6, "debug") and not ("debug-via-bytes" in avoid and branchy)
    us = [ch.u01("collapse") for _ in range(48)]
    dim = 2 ** n
    kind = ch.draw(3, "inkind")
    if kind == 0:
        psi = np.zeros(dim, dtype=complex)
        psi[ch.draw(dim, "basis")] = 1
    else:
        psi = np.array([complex(ch.draw(9, "re") - 4, ch.draw(9, "im") - 4) for _ in range(dim)], dtype=complex)
        if np.linalg.norm(psi) < 1e-9:
            psi[0] = 1
        psi = psi / np.linalg.norm(psi)
    faults: Dict[str, int] = {}
    probes: Dict[str, int] = {}

    def bump(d, k, c=1):
        d[k] = d.get(k, 0) + c

    for k in gen.kinds:
        bump(probes, k)
    if n == 3:
        bump(probes, "three-qubits")
    if gen.label_past_end:
        bump(probes, "end-label-target")
    if debug:
        bump(probes, "debug-on")
    cross = crosses_expansion(prog)
    if cross:
        bump(probes, "branch-crosses-expansion")
    sample = {"n_qubits": n, "debug": debug, "program": prog, "input": [str(np.round(z, 3)) for z in psi]}

    V = Side("V", "vanilla", us)
    N = Side("N", "nv", us)
    alloc = []
    for i in range(n):
        alloc += [("set", ("Q", 0), i), ("qalloc", ("Q", 0)), ("init", ("Q", 0))]
    vf, nf = VanillaFlavour(), NVFlavour()
    try:
        raw_alloc_v = subroutine_bytes(alloc, 0, vf)
        V.run_bytes(raw_alloc_v)
        sub_alloc = deserialize(raw_alloc_v[1:], flavour=vf)
        N.run_bytes(bytes(SubroutineMessage(NVSubroutineTranspiler(sub_alloc).transpile())))
    except Violation:
        raise
    except Exception as e:  # noqa: BLE001
        fr = traceback.extract_tb(e.__traceback__)[-1]
        raise Violation("twin", f"allocation-subroutine|{type(e).__name__}|{fr.name}", {"error": str(e)[:300], **sample})
    for side in (V, N):
        um = side.node.unit_module(0)
        side.uni.inject([(0, um[i]) for i in range(n)], psi)
    # ---- the program on both sides ------------------------------------------------
    raw_v = subroutine_bytes(prog, 0, vf)
    verr = nerr = None
    try:
        V.run_bytes(raw_v)
    except Violation:
        raise
    except Exception as e:  # noqa: BLE001
        verr = e
    if isinstance(verr, StepCap):
        raise RuntimeError("generator produced a non-terminating vanilla program")
    if verr is not None:
        raise Discard("generated vanilla program faults on the vanilla executor: " + type(verr).__name__)
    # the package-wide "running on hardware" setting changes how rotation angles are written (always over 2^4)
    on_hw = (not calm) and ch.flag(1, 6, "hardware-setting")
    sample["hardware_setting"] = on_hw
    if on_hw:
        bump(probes, "hardware-setting-on")
    try:
        sub = deserialize(raw_v[1:], flavour=vf)
        settings.set_is_using_hardware(on_hw)
        try:
            tsub = NVSubroutineTranspiler(sub, debug=debug).transpile()
        finally:
            settings.set_is_using_hardware(False)
    except Violation:
        raise
    except Exception as e:  # noqa: BLE001
        fr = traceback.extract_tb(e.__traceback__)[-1]
        sig = f"transpiler-exception|{type(e).__name__}|{fr.name}"
        if "q-register-by-load" in gen.kinds:
            sig += "|q-register-by-load"
        raise Violation("twin", sig, {"error": str(e)[:300], **sample})
    try:
        N.run_bytes(bytes(SubroutineMessage(tsub)))
    except Violation:
        raise
    except Exception as e:  # noqa: BLE001
        nerr = e
    tags = ("|debug" if (debug and branchy) else "") + ("|q-register-by-load" if "q-register-by-load" in gen.kinds else "")
    if isinstance(nerr, StepCap):
        raise Violation("twin", f"nv-side-does-not-terminate{tags}", {"transpiled": str(tsub)[:3000], **sample})
    if nerr is not None:
        raise Violation("twin", f"nv-side-faults|{type(nerr).__name__}{tags}",
                        {"error": str(nerr)[:300], "transpiled": str(tsub)[:3000], **sample})
    errs = V.uni.errors + V.qm.errors + N.uni.errors + N.qm.errors
    if errs:
        raise Violation("twin", f"memory|{errs[0].split(' ')[0]}{tags}", {"errors": errs[:3], **sample})
    # ---- compare --------------------------------------------------------------------
    for (a, b) in N.node.env.crot_virtual:
        if a != 0 or b == 0:
            raise Violation("twin", f"crot-not-electron-controlled{tags}", {"control": a, "target": b, **sample})
    rv = {k: v for k, v in V.node.regs(0).items() if k[0] != "Q" and k != ("C", 15)}
    rn = {k: v for k, v in N.node.regs(0).items() if k[0] != "Q" and k != ("C", 15)}
    if rv != rn:
        diff = {str(k): (rv.get(k), rn.get(k)) for k in set(rv) | set(rn) if rv.get(k) != rn.get(k)}
        raise Violation("twin", f"classical-registers-differ{tags}", {"diff(vanilla,nv)": diff, "transpiled": str(tsub)[:3000], **sample})
    if V.node.arrays(0) != N.node.arrays(0):
        raise Violation("twin", f"arrays-differ{tags}", {"vanilla": V.node.arrays(0), "nv": N.node.arrays(0), **sample})
    if V.node.shm_regs(0) != N.node.shm_regs(0) or V.node.shm_arrays(0) != N.node.shm_arrays(0):
        raise Violation("twin", f"shared-memory-differs{tags}", dict(sample))
    if V.node.allocated(0) != N.node.allocated(0):
        raise Violation("twin", f"allocated-qubits-differ{tags}", {"vanilla": V.node.allocated(0), "nv": N.node.allocated(0), **sample})
    ids = V.node.allocated(0)
    sv = V.uni.statevector([(0, V.node.unit_module(0)[i]) for i in ids])
    sn = N.uni.statevector([(0, N.node.unit_module(0)[i]) for i in ids])
    if sv is None or sn is None:
        raise Violation("twin", f"state-not-pure{tags}", dict(sample))
    f = float(abs(np.vdot(sv, sn)) ** 2)
    if f < 1 - 1e-9:
        raise Violation("twin", f"quantum-state-differs{tags}",
                        {"fidelity": f, "vanilla": [str(np.round(z, 4)) for z in sv], "nv": [str(np.round(z, 4)) for z in sn],
                         "transpiled": str(tsub)[:3000], **sample})
    h = hashlib.blake2b(repr((prog, [str(z) for z in psi], debug)).encode(), digest_size=10).hexdigest()
    bump(faults, "collapse-draws-shared-by-twins", V.uni.nmeas)
    nontrivial = cross or ("carbon-carbon-gate" in gen.kinds)
    dg = hashlib.blake2b(repr((rv, V.node.arrays(0), [str(np.round(z, 6)) for z in sn], N.node.env.crot_virtual)).encode(),
                         digest_size=10).hexdigest()
    return {"digest": dg, "fingerprint": h, "nontrivial": bool(nontrivial), "events": len(prog), "sim_ns": 0,
            "faults": faults, "probes": probes, "calm": calm,
            "sample": {"n_qubits": n, "debug": debug, "program": prog[:40], "transpiled_len": len(tsub.instructions)}}


def cleanup() -> None:
    reset_globals()
    from sim.stubs.connection import SimNetworkInfo
    SimNetworkInfo.reset()
