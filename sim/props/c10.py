"""C10 -- Entanglement looks like Phi+ whatever Bell state the link delivered.

Two simulated nodes (creator, receiver), each a real host (SDK) and a real controller,
over a state-vector universe and the fake link.  The scheduler owns the Bell state of
every pair, the raw outcomes, and the delivery times of both sides' responses.
K/R oracle: after the receiver's subroutine, (receiver's qubit i, creator's partner i)
is Phi+ for every pair i (exactly the delivered Bell state with the expectation off) and
every other live qubit is untouched; post-routine / sequential variants are checked by
measuring pair i in Z or X and comparing with the partner's collapsed state.
M oracle: for the drawn Bell state and basis every raw outcome pair is pushed through
the real pipeline (one pair per outcome combination, weighted by its exact Born
probability); the accumulated distribution of post-processed outcomes must equal the
distribution of measuring Phi+ in those bases.
"""
from __future__ import annotations

import hashlib
import math
import traceback
from typing import Any, Dict, List, Optional, Tuple

import numpy as np

from netqasm.qlink_compat import RequestType
from netqasm.sdk.build_epr import EntRequestParams, EprMeasBasis, basis_to_rotation
from netqasm.sdk.build_types import GenericHardwareConfig, NVHardwareConfig
from netqasm.sdk.epr_socket import EPRSocket
from netqasm.sdk.qubit import Qubit
from netqasm.sdk.transpile import NVSubroutineTranspiler

from sim.core import Choices, Discard, Sched, Trace, Violation
from sim.props.c05 import _last_sub
from sim.rigs.network import Network, random_state
from sim.stubs.backend import reset_globals
from sim.stubs.connection import SimConnection, SimNetworkInfo
from sim.stubs.link import LinkBell as BellState
from sim.stubs.qmem_sv import BELL, H as HGATE, rot

PROP = "C10"
RUNS = {"quick": 3000, "thorough": 300000}
BUDGET_S = {"quick": 60, "thorough": 1500}
RULE = ("one run = (API variant, pair count 1-4, expect_phi_plus on/off, generic|NV hardware +- transpiler, 0-2 other live "
        "qubits on the receiver, basis for measure-directly) + the Bell state of every pair and the delivery order drawn by "
        "the scheduler; non-trivial = at least one delivered pair was not Phi+ (a correction was due) or, for "
        "measure-directly, a non-Z basis / non-Phi+ state; distinct = distinct (config, Bell tuple, interleaving) digest")
COMPONENTS = {
    "real": ["EPRSocket API (create_keep, recv_keep, *_with_info, create_rsp/recv_rsp, create_measure/recv_measure)",
             "Builder: per-pair correction loop, post-routine and move-to-memory paths, Bell state -> Pauli gates",
             "build_epr.EprMeasureResult post-processing", "qlink_compat.BellState numbering", "assembler, codec, both "
             "controllers and executors (EPR bookkeeping)", "NVSubroutineTranspiler (when enabled)"],
    "stub": ["state-vector universe sim/stubs/qmem_sv.py (gate semantics from definitions)", "fake link layer preparing "
             "each pair in the drawn Bell state", "scheduler"],
}
ASSUMPTIONS = [
    "Bell-state numbering is netqasm.qlink_compat.BellState (what the SDK documents), not the external qlink_interface enum",
    "fidelity threshold 1 - 1e-9",
    "for remote state preparation the creator's half is kept unmeasured by the link so that the pair can be inspected",
    "measure-directly: both sides are asked for the same named basis (post-processing is only defined then)",
]
PROBES = ["bell:PHI_PLUS", "bell:PSI_PLUS", "bell:PSI_MINUS", "bell:PHI_MINUS", "variant:recv_keep", "variant:recv_keep_info",
          "variant:recv_keep_post", "variant:recv_rsp", "variant:recv_rsp_info", "variant:recv_measure", "measure-per-pair-bell-states", "measure-receiver-told-basis", "keep-single-pair-sequential-flag", "post-routine-non-sequential", "receive-context-form", "pairs>=2", "other-live-qubits", "nv",
          "expect-off", "correction-due-on-pair>=1", "basis-non-Z"]

VARIANTS = ["recv_keep", "recv_keep_info", "recv_keep_post", "recv_rsp", "recv_measure", "recv_rsp_info"]
BASES = [EprMeasBasis.Z, EprMeasBasis.X, EprMeasBasis.Y, EprMeasBasis.MX, EprMeasBasis.MY, EprMeasBasis.MZ]


def phi_plus_distribution(basis: EprMeasBasis) -> Dict[Tuple[int, int], float]:
    """Joint outcome distribution of measuring Phi+ with both halves rotated by the named basis' rotations."""
    r3 = basis_to_rotation(basis)
    u = rot("x", r3[2] * math.pi / 16) @ rot("y", r3[1] * math.pi / 16) @ rot("x", r3[0] * math.pi / 16)
    v = np.kron(u, u) @ BELL["PHI_PLUS"]
    return {(a, b): float(abs(v[2 * a + b]) ** 2) for a in (0, 1) for b in (0, 1)}


def run(ch: Choices, opts: Dict[str, Any]) -> Dict[str, Any]:
    reset_globals()
    SimNetworkInfo.reset()
    avoid = set(opts.get("avoid", ()))
    trace = Trace()
    calm = ch.flag(1, 10, "calm")
    variant = VARIANTS[ch.weighted([4, 2, 3, 2, 3, 2], "variant")]
    n_pairs = 1 if calm else 1 + ch.weighted([3, 4, 2, 2], "npairs")
    expect = not ch.flag(1, 5, "expect-off")
    hw = "generic" if calm else ch.pick(["generic", "generic", "nv"])
    transp = hw == "nv" and ch.flag(1, 2, "transpiler")
    # the context-manager form of a receive (its body plays the post routine; it has no expectation switch: default on)
    ctxform = variant == "recv_keep_post" and (not calm) and hw == "generic" and "recv-context" not in avoid and ch.flag(1, 4, "ctxform")
    if ctxform:
        expect = True
    n_other = 0 if calm else ch.draw(3, "nother")
    if "corrections-with-shifted-ids" in avoid and variant in ("recv_keep", "recv_keep_info", "recv_rsp", "recv_rsp_info") and hw == "generic":
        # recorded finding: corrections address virtual qubit 0 -> only exercise layouts where pair i sits on id 0
        n_pairs = 1
        n_other = 0
    if "nv-rsp-multi" in avoid and variant in ("recv_rsp", "recv_rsp_info") and hw == "nv":
        n_pairs = 1
    # measure-directly: either the plain recv_measure() call (which cannot be told the basis: recorded finding for the
    # non-Z ones), or the receiver states the bases itself through the builder-level call recv_measure() wraps
    told = variant == "recv_measure" and (not calm) and ch.flag(1, 2, "toldbasis")
    if "measure-basis-unknown-to-receiver" in avoid and not told:
        basis = EprMeasBasis.Z
    else:
        basis = BASES[ch.draw(6, "basis")]
    budget = max(n_pairs + n_other + (1 if hw == "nv" else 0), 2)
    if hw == "nv" and variant in ("recv_keep", "recv_keep_info", "recv_rsp", "recv_rsp_info") and n_pairs >= 2 and n_other > 0:
        n_other = 0   # C09's recorded finding (NV multi-pair keep with a live qubit) is not this property's business
    mode = "time" if calm else ch.pick(["mix", "time"])
    sched = Sched(ch, trace, mode=mode, max_cost=0 if calm else 30)
    flav = "nv" if transp else "vanilla"
    net = Network(ch, sched, trace, 2, [flav, flav], legacy=ch.flag(1, 3, "legacy"), calm=calm)
    creator, receiver = net.nodes
    faults: Dict[str, int] = {}
    probes: Dict[str, int] = {}

    def bump(d, k, n=1):
        d[k] = d.get(k, 0) + n

    bump(probes, "variant:" + variant)
    if n_pairs >= 2:
        bump(probes, "pairs>=2")
    if n_other:
        bump(probes, "other-live-qubits")
    if hw == "nv":
        bump(probes, "nv")
    if not expect:
        bump(probes, "expect-off")
    sample = {"variant": variant, "pairs": n_pairs, "expect_phi_plus": expect, "hardware": hw, "transpiler": transp,
              "other_live": n_other, "basis": basis.name if variant == "recv_measure" else None, "receiver_told_basis": told}
    SimNetworkInfo.node_ids.update({"n0": 0, "n1": 1})
    SimNetworkInfo.app_nodes.update({"alice": "n0", "bob": "n1"})
    state: Dict[str, Any] = {"done": 0}

    if variant == "recv_measure":
        # one pair per raw outcome combination (k >> 1, k & 1); all pairs share one drawn Bell state
        n_pairs = 4
        sample["pairs"] = 4
        state["mbell"] = BellState(ch.draw(4, "mbell"))
        # ... or (half of the non-calm runs) every pair its own Bell state: the post-processing of pair k must use pair k's
        state["mbells"] = [BellState(ch.draw(4, "mbellk")) for _ in range(4)] if (not calm and ch.flag(1, 2, "mixedbell")) else None
        net.qlink.force_outcomes = lambda job, k: ((k >> 1) & 1, k & 1)
        net.link.bell_override = lambda job, k: state["mbell"] if state["mbells"] is None else state["mbells"][k]
        budget = max(budget, 2)

    hwc = (lambda: NVHardwareConfig(budget)) if hw == "nv" else (lambda: GenericHardwareConfig(budget))
    comp = NVSubroutineTranspiler if transp else None

    def flush_host(conn, who: str):
        g = conn.drain()
        while True:
            try:
                y = next(g)
            except StopIteration:
                return
            except Violation:
                raise
            except Exception as e:  # noqa: BLE001
                raise Violation("controller", f"controller-fault|{who}|{type(e).__name__}|{variant}|{hw}",
                                {"error": str(e)[:400], "subroutine": _last_sub(conn), **sample})
            yield y

    def creator_task():
        sock = EPRSocket("bob", epr_socket_id=0, remote_epr_socket_id=0)
        conn = SimConnection("alice", creator, max_qubits=budget, hardware_config=hwc(), epr_sockets=[sock], compiler=comp)
        state["cconn"] = conn
        try:
            if variant == "recv_measure":
                res = sock.create_measure(number=n_pairs, basis_local=basis, basis_remote=basis)
                state["cres"] = res
            elif variant in ("recv_rsp", "recv_rsp_info"):
                res = sock.create_rsp(number=n_pairs)
                state["cres"] = res
            else:
                qs = sock.create_keep(number=n_pairs)
                state["cqs"] = qs
            conn.flush()
        except Violation:
            raise
        except Exception as e:  # noqa: BLE001
            fr = traceback.extract_tb(e.__traceback__)[-1]
            raise Violation("sdk", f"sdk-exception|creator|{type(e).__name__}|{fr.name}|{variant}|{hw}",
                            {"error": str(e)[:300], **sample})
        yield from flush_host(conn, "creator")
        state["done"] += 1

    def receiver_task():
        sock = EPRSocket("alice", epr_socket_id=0, remote_epr_socket_id=0)
        conn = SimConnection("bob", receiver, max_qubits=budget, hardware_config=hwc(), epr_sockets=[sock], compiler=comp)
        state["rconn"] = conn
        try:
            others = [Qubit(conn) for _ in range(n_other)]
            state["others"] = others
            if others:
                conn.flush()
                yield from flush_host(conn, "receiver")
                vecs = []
                for q in others:
                    v = random_state(ch)
                    slot = net.slot_of(receiver, conn.app_id, q.qubit_id)
                    net.uni.inject([slot], v)
                    vecs.append(v)
                state["other_vecs"] = vecs
            # a single pair may also be asked for in sequential mode without a post routine
            seq1 = variant in ("recv_keep", "recv_keep_info") and n_pairs == 1 and (not calm) and ch.flag(1, 3, "seq1")
            if seq1:
                bump(probes, "keep-single-pair-sequential-flag")
            if variant == "recv_keep":
                state["rqs"] = sock.recv_keep(number=n_pairs, expect_phi_plus=expect, sequential=seq1)
            elif variant == "recv_keep_info":
                qs, infos = sock.recv_keep_with_info(number=n_pairs, expect_phi_plus=expect, sequential=seq1)
                state["rqs"] = qs
                state["rinfos"] = infos
            elif variant == "recv_keep_post":
                outcomes = conn.new_array(n_pairs)
                state["post_basis"] = "X" if ch.flag(1, 2, "postbasis") else "Z"

                def post(c, q, pair):
                    if state["post_basis"] == "X":
                        q.H()
                    q.measure(future=outcomes.get_future_index(pair))
                if ctxform:
                    bump(probes, "receive-context-form")
                    with sock.recv_context(number=n_pairs, sequential=True) as (q, pair):
                        if state["post_basis"] == "X":
                            q.H()
                        q.measure(future=outcomes.get_future_index(pair))
                else:
                    # the post routine may also be given without the sequential mode (every pair then has its own ID)
                    post_seq = calm or hw == "nv" or ch.flag(2, 3, "postseq")
                    if not post_seq:
                        bump(probes, "post-routine-non-sequential")
                    sock.recv_keep(number=n_pairs, post_routine=post, sequential=post_seq, expect_phi_plus=expect)
                state["outcomes"] = outcomes
            elif variant == "recv_rsp":
                state["rqs"] = sock.recv_rsp(number=n_pairs, expect_phi_plus=expect)
            elif variant == "recv_rsp_info":
                qs, infos = sock.recv_rsp_with_info(number=n_pairs, expect_phi_plus=expect)
                state["rqs"] = qs
                state["rinfos"] = infos
            elif told:
                r3 = basis_to_rotation(basis)
                state["rres"] = conn.builder.sdk_recv_epr_measure(params=EntRequestParams(
                    remote_node_id=sock.remote_node_id, epr_socket_id=sock._epr_socket_id, number=n_pairs,
                    expect_phi_plus=expect, post_routine=None, sequential=False, rotations_local=r3, rotations_remote=r3))
            else:
                state["rres"] = sock.recv_measure(number=n_pairs, expect_phi_plus=expect)
            conn.flush()
        except Violation:
            raise
        except Exception as e:  # noqa: BLE001
            fr = traceback.extract_tb(e.__traceback__)[-1]
            raise Violation("sdk", f"sdk-exception|receiver|{type(e).__name__}|{fr.name}|{variant}|{hw}",
                            {"error": str(e)[:300], **sample})
        yield from flush_host(conn, "receiver")
        state["done"] += 1

    sched.spawn("creator", creator_task(), party="creator")
    sched.spawn("receiver", receiver_task(), party="receiver")
    done = lambda: state["done"] == 2  # noqa: E731
    sched.spawn("retry0", creator.retry_task(done, ch, 100), party="ctrl0")
    sched.spawn("retry1", receiver.retry_task(done, ch, 100), party="ctrl1")

    def on_error(task, e):
        raise Violation("controller", f"controller-fault-on-delivery|{type(e).__name__}|{variant}|{hw}",
                        {"task": task.name, "error": str(e)[:300], **sample})
    sched.on_error = on_error
    from sim.rigs.controller import LivenessWatch
    watch = LivenessWatch(sched, [creator, receiver], net.link, window=8000, hard=400000)
    while not done():
        if sched.step() is None:
            raise Violation("liveness", f"liveness|deadlock|{variant}|{hw}", dict(sample))
        stuck = watch.verdict()
        if stuck:
            raise Violation("liveness", f"liveness|{stuck}|{variant}|{hw}", dict(sample))
    net.link.stop()
    errs = net.errors()
    if errs:
        raise Violation("memory", f"memory|{errs[0].split(' ')[0]}|{variant}|{hw}", {"errors": errs[:4], **sample})

    # ---- oracles ------------------------------------------------------------
    bells = [p["bell"] for p in net.qlink.pairs]
    sample["bell_states"] = [b.name for b in bells]
    for b in bells:
        bump(probes, "bell:" + b.name)
        bump(faults, "link-delivered-" + b.name)
    nontrivial = any(b != BellState.PHI_PLUS for b in bells)
    if any(b != BellState.PHI_PLUS for b in bells[1:]):
        bump(probes, "correction-due-on-pair>=1")
    uni = net.uni
    rconn, cconn = state["rconn"], state["cconn"]
    EPS = 1e-9
    is_rsp = variant in ("recv_rsp", "recv_rsp_info")
    if variant in ("recv_keep", "recv_keep_info", "recv_rsp", "recv_rsp_info"):
        for i, q in enumerate(state["rqs"]):
            rslot = net.slot_of(receiver, rconn.app_id, q.qubit_id)
            pair = net.qlink.pairs[i]
            cslot = None
            if not is_rsp:
                # the creator's half may have been moved to a memory qubit: follow the creator's handle
                cslot = net.slot_of(creator, cconn.app_id, state["cqs"][i].qubit_id)
                if cslot is None:
                    raise Violation("state", f"keep|creator-qubit-not-allocated|{variant}|{hw}", {"pair": i, **sample})
            if rslot is None:
                raise Violation("state", f"keep|receiver-qubit-not-allocated|{variant}|{hw}", {"pair": i, **sample})
            if is_rsp:
                # the creator's half was measured by the link: the receiver's qubit is then a basis state; with the
                # expectation on, outcome m must leave |m> (Phi+ correlation in Z), else the delivered correlation
                oc = pair["out"][0]
                p0 = uni.prob0(rslot)
                want_bit = oc if (expect or pair["bell"] in (BellState.PHI_PLUS, BellState.PHI_MINUS)) else 1 - oc
                got_bit = 0 if p0 > 0.5 else 1
                if abs(p0 - round(p0)) > 1e-6 or got_bit != want_bit:
                    raise Violation("state", f"rsp|wrong-state|pair{'>=1' if i else '0'}|expect={'on' if expect else 'off'}|{hw}",
                                    {"pair": i, "bell": pair["bell"].name, "creator_outcome": oc, "p0": p0, **sample})
                continue
            target = BELL["PHI_PLUS"] if expect else BELL[pair["bell"].name]
            f = uni.fidelity_with([cslot, rslot], target)
            if f < 1 - EPS:
                which = {n: round(uni.fidelity_with([cslot, rslot], v), 6) for n, v in BELL.items()}
                raise Violation("state", f"keep|pair-not-{'phi-plus' if expect else 'delivered-state'}|pair{'>=1' if i else '0'}|{variant}|{hw}",
                                {"pair": i, "delivered": pair["bell"].name, "fidelity": f, "overlaps": which,
                                 "receiver_virtual_id": q.qubit_id, **sample})
        for j, q in enumerate(state.get("others", [])):
            slot = net.slot_of(receiver, rconn.app_id, q.qubit_id)
            if slot is None:
                raise Violation("state", f"keep|other-qubit-lost|{variant}|{hw}", {"other": j, **sample})
            f = uni.fidelity_with([slot], state["other_vecs"][j])
            if f < 1 - EPS:
                raise Violation("state", f"keep|other-qubit-disturbed|{variant}|{hw}",
                                {"other": j, "virtual_id": q.qubit_id, "fidelity": f, **sample})
        if variant in ("recv_keep_info", "recv_rsp_info"):
            for i, info in enumerate(state["rinfos"]):
                if info.bell_state.value != net.qlink.pairs[i]["bell"].value:
                    raise Violation("state", f"keep|info-bell-state-wrong|{hw}", {"pair": i, **sample})
    elif variant == "recv_keep_post":
        outs = state["outcomes"]
        for i in range(n_pairs):
            m = outs[i]
            pair = net.qlink.pairs[i]
            cslot = net.slot_of(creator, cconn.app_id, state["cqs"][i].qubit_id)
            if cslot is None:
                raise Violation("state", f"post|creator-qubit-not-allocated|{hw}", {"pair": i, **sample})
            if m not in (0, 1):
                raise Violation("state", f"post|no-outcome|{hw}", {"pair": i, "outcome": m, **sample})
            # with corrections applied the partner must be |m> (Z) or H|m> (X); without, what the delivered state implies
            b = pair["bell"]
            if state["post_basis"] == "Z":
                flip = (not expect) and b in (BellState.PSI_PLUS, BellState.PSI_MINUS)
                want = np.array([1, 0], dtype=complex) if (m ^ int(flip)) == 0 else np.array([0, 1], dtype=complex)
            else:
                flip = (not expect) and b in (BellState.PHI_MINUS, BellState.PSI_MINUS)
                want = HGATE @ (np.array([1, 0], dtype=complex) if (m ^ int(flip)) == 0 else np.array([0, 1], dtype=complex))
            f = uni.fidelity_with([cslot], want)
            if f < 1 - EPS:
                raise Violation("state", f"post|partner-not-correlated|pair{'>=1' if i else '0'}|basis={state['post_basis']}|expect={'on' if expect else 'off'}|{hw}{'|context-form' if ctxform else ''}",
                                {"pair": i, "delivered": b.name, "outcome": m, "fidelity": f, **sample})
    else:
        # measure-directly: accumulate the exact distribution of (creator outcome, receiver post-processed outcome)
        bump(probes, "basis-non-Z") if basis != EprMeasBasis.Z else None
        nontrivial = nontrivial or basis != EprMeasBasis.Z
        got: Dict[Tuple[int, int], float] = {(a, b): 0.0 for a in (0, 1) for b in (0, 1)}
        raw_mismatch = None
        for k in range(4):
            pair = net.qlink.pairs[k]
            p = pair["probs"][pair["out"]]
            try:
                mc = state["cres"][k].measurement_outcome
                mr = state["rres"][k].measurement_outcome
            except Violation:
                raise
            except Exception as e:  # noqa: BLE001
                raise Violation("sdk", f"measure|outcome-unavailable|{type(e).__name__}|basis={basis.name}",
                                {"error": str(e)[:300], **sample})
            if not expect and (mc, mr) != pair["out"]:
                raw_mismatch = (k, (mc, mr), pair["out"])
            got[(mc, mr)] += p
            if expect and state["mbells"] is not None and p > 1e-12:
                # per-pair form: a possible raw outcome of pair k's Bell state must be mapped to an outcome that Phi+ gives
                # with the same probability
                wantk = phi_plus_distribution(basis)
                if abs(wantk[(mc, mr)] - p) > 1e-9:
                    raise Violation("state", f"measure|distribution-not-phi-plus|bell={pair['bell'].name}|basis={basis.name}{'|receiver-told-the-basis' if told else ''}",
                                    {"form": "per-pair", "pair": k, "raw": pair["out"], "raw_probability": round(p, 6), "reported": (mc, mr),
                                     "phi_plus_probability": round(wantk[(mc, mr)], 6),
                                     "bells": [b.name for b in state["mbells"]], **sample})
        if raw_mismatch is not None:
            raise Violation("state", "measure|raw-outcome-altered-with-expectation-off", {"case": raw_mismatch, **sample})
        if state["mbells"] is not None:
            bump(probes, "measure-per-pair-bell-states")
        if told:
            bump(probes, "measure-receiver-told-basis")
        if expect and state["mbells"] is None:
            want = phi_plus_distribution(basis)
            if any(abs(got[k2] - want[k2]) > 1e-9 for k2 in got):
                raise Violation("state", f"measure|distribution-not-phi-plus|bell={state['mbell'].name}|basis={basis.name}{'|receiver-told-the-basis' if told else ''}",
                                {"got": {str(k2): round(v, 6) for k2, v in got.items()},
                                 "want": {str(k2): round(v, 6) for k2, v in want.items()}, **sample})
    for conn in (cconn, rconn):
        conn.close()
        try:
            conn.drain_now()
        except Exception:  # noqa: BLE001 -- closing is not what this property is about
            pass
    h = hashlib.blake2b(repr((sample, [b.name for b in bells])).encode(), digest_size=8).hexdigest()
    if node_retry := (creator.env.retry_count + receiver.env.retry_count):
        bump(faults, "retry-timer-fired", node_retry)
    if net.link.counters.get("answered-from-inside-put"):
        bump(faults, "answered-from-inside-put", net.link.counters["answered-from-inside-put"])
    return {
        "digest": trace.digest(), "fingerprint": h + sched.fingerprint()[:8], "nontrivial": bool(nontrivial),
        "events": sched.steps, "sim_ns": sched.now, "faults": faults, "probes": probes, "calm": calm,
        "sample": sample,
    }


def cleanup() -> None:
    reset_globals()
    SimNetworkInfo.reset()
