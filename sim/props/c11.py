"""C11 -- EPR requests and results cross the SDK/controller boundary intact.

One real node (host SDK + controller) with up to three ghost peers behind the fake link.
Workload: 1-3 create / receive calls through every public EPRSocket entry point with
drawn arguments (type K/M/R, number, time_unit x max_time, rotation triples 0..31, named
bases, every RandomBasis member, socket ids 0..3, both roles).  The scheduler draws
every response field independently (create id, logical qubit id, sequence number,
goodness, goodness time, Bell state, outcome, basis) and the delivery times.
Request oracle: the LinkLayerCreate that reaches the network stack carries exactly the
API's values in the right fields (defaults where the API was silent), addressed to the
socket's node and purpose, and request_to_qlink_1_0 accepts it.
Response oracle: result handle i reads the corresponding field of the i-th response
delivered for that request (fields are pairwise distinct so a swapped index shows).
"""
from __future__ import annotations

import hashlib
import traceback
from enum import Enum
from typing import Any, Dict, List, Optional, Tuple

from netqasm.qlink_compat import RandomBasis, RequestType, TimeUnit, request_to_qlink_1_0
from netqasm.sdk.build_epr import EprMeasBasis, basis_to_rotation
from netqasm.sdk.build_types import GenericHardwareConfig
from netqasm.sdk.epr_socket import EPRSocket

from sim.core import Choices, Discard, Sched, Trace, Violation
from sim.props.c05 import _last_sub
from sim.rigs.controller import ControllerNode
from sim.stubs.backend import reset_globals
from sim.stubs.connection import SimConnection, SimNetworkInfo
from sim.stubs.link import FakeLink
from sim.stubs.qmem_trace import TraceQMem

PROP = "C11"
RUNS = {"quick": 4000, "thorough": 400000}
BUDGET_S = {"quick": 60, "thorough": 1500}
RULE = ("one run = 1-3 EPR API calls (entry point, role, type, pair count, time limit+unit, rotations / named bases / "
        "random-basis sets, socket 0-3 to one of three remote nodes) + independently drawn response fields and delivery "
        "times; non-trivial = a request with at least one non-default parameter or at least two pairs (so that field and "
        "index mix-ups are distinguishable); distinct = distinct (calls, response fields) digest")
COMPONENTS = {
    "real": ["EPRSocket entry points", "build_epr.serialize_request / deserialize_epr_*_results", "Builder request "
             "construction and result handles (Qubit.entanglement_info, EprKeepResult, EprMeasureResult)",
             "Executor._get_create_request (argument array -> LinkLayerCreate with defaults), _store_ent_info",
             "qlink_compat.request_to_qlink_1_0 / response_from_qlink_1_0", "assembler, codec, controller"],
    "stub": ["recording network stack", "fake link layer with ghost peers and independently drawn response fields",
             "trace memory", "scheduler"],
}
ASSUMPTIONS = [
    "the network stack's purpose id is a per-run bijection of the EPR socket id (identity as in SquidASM, +7, or 15-id)",
    "generic hardware config (on NV the SDK moves kept qubits, which is C09/C10 territory)",
    "a request is 'in a form the link-layer interface accepts' iff netqasm.qlink_compat.request_to_qlink_1_0 converts it",
]
PROBES = ["type-K", "type-M", "type-R", "role-create", "role-recv", "max_time-set", "rotations-set", "named-basis",
          "random-basis-set", "with-info", "keep-sequential-post-routine", "request-refused-by-stack", "pairs>=2", "two-calls-same-socket", "three-remote-nodes",
          "min-fidelity-constraint", "min-fidelity-retried"]

GHOSTS = {"g7": 7, "g8": 8, "g9": 9}
KINDS = ["create_keep", "create_keep_info", "create_measure", "create_rsp", "recv_keep", "recv_keep_info",
         "recv_measure", "recv_rsp", "recv_rsp_info"]


def gen_calls(ch: Choices, avoid: set, calm: bool) -> List[Dict[str, Any]]:
    n = 1 if calm else 1 + ch.weighted([3, 3, 2], "ncalls")
    calls = []
    used_keep = 0
    for _ in range(n):
        kind = KINDS[ch.weighted([3, 2, 4, 2, 3, 2, 3, 2, 1], "kind")]
        if "type-R-create" in avoid and kind == "create_rsp":
            kind = "create_measure"
        c: Dict[str, Any] = {"kind": kind, "sock": ch.draw(4, "sock"), "peer": ch.pick(sorted(GHOSTS))}
        keeps = kind in ("create_keep", "create_keep_info", "recv_keep", "recv_keep_info", "recv_rsp", "recv_rsp_info")
        room = 5 - used_keep
        if keeps and room <= 0:
            kind = "create_measure"
            c["kind"] = kind
            keeps = False
        # with-info keeps may be sequential with a post routine that consumes each pair (one virtual ID, re-used per
        # pair: a response may then arrive while the previous pair still occupies it)
        if kind in ("create_keep_info", "recv_keep_info") and room >= 1 and not calm and ch.flag(1, 3, "sequential"):
            c["sequential"] = True
            c["number"] = 1 + ch.draw(3, "number")
            used_keep += 1
            keeps = False
        else:
            c["number"] = 1 + ch.draw(min(3, room) if keeps else 3, "number")
        if keeps:
            used_keep += c["number"]
        if kind.startswith("create"):
            if ch.flag(1, 2, "maxtime"):
                c["time_unit"] = ch.pick([TimeUnit.MICRO_SECONDS, TimeUnit.MILLI_SECONDS, TimeUnit.SECONDS]).name
                # boundary values often, otherwise anything up to 1000
                c["max_time"] = ch.pick([1, 1, 2, 255, 256, 1000]) if ch.flag(1, 3, "maxtime-edge") else 1 + ch.draw(1000, "maxtime")
        if kind in ("create_measure", "create_rsp"):
            form = ch.draw(3, "basisform")
            if form == 1:
                c["basis_local"] = ch.pick([b.name for b in EprMeasBasis])
                if kind == "create_measure":
                    c["basis_remote"] = ch.pick([b.name for b in EprMeasBasis])
            elif form == 2:
                c["rotations_local"] = (ch.draw(32, "r"), ch.draw(32, "r"), ch.draw(32, "r"))
                if kind == "create_measure":
                    c["rotations_remote"] = (ch.draw(32, "r"), ch.draw(32, "r"), ch.draw(32, "r"))
            if "random-basis" not in avoid and ch.flag(1, 2, "rb"):
                c["random_basis_local"] = ch.pick([b.name for b in RandomBasis])
                if kind == "create_measure" and ch.flag(1, 2, "rbr"):
                    c["random_basis_remote"] = ch.pick([b.name for b in RandomBasis])
        if kind in ("create_keep", "recv_keep", "create_rsp", "recv_rsp") and not calm and "min-fidelity-retries" not in avoid \
                and ch.flag(1, 5, "minfid"):
            # a minimum-fidelity constraint: the SDK re-tries the request while the link reports the pairs as too slow; the
            # handles must then read the LAST attempt's responses (the last attempt is never too slow here: what happens
            # when every attempt fails is C09's recorded finding)
            tries = 1 + ch.draw(3, "tries")
            slow = [ch.flag(1, 2, "slow") for _ in range(tries)]
            slow[-1] = False
            c["minfid"] = {"fid": 50 + ch.draw(51, "fid"), "tries": tries, "attempts": slow.index(False) + 1}
        calls.append(c)
    # sequential keeps go last: their handle occupies the lowest free ID without the qubit staying allocated, and the
    # plain receive paths' corrections address virtual qubit 0 (C10's recorded finding) -- which must then exist
    calls.sort(key=lambda c: 1 if c.get("sequential") else 0)
    return calls


def expected_request(c: Dict[str, Any]) -> Dict[str, Any]:
    """What the network stack must receive, field by field, from the API arguments alone."""
    kind = c["kind"]
    tp = {"create_keep": RequestType.K, "create_keep_info": RequestType.K, "create_measure": RequestType.M,
          "create_rsp": RequestType.R}[kind]
    e: Dict[str, Any] = {
        "remote_node_id": GHOSTS[c["peer"]], "purpose_id": c["sock"], "type": tp, "number": c["number"],
        "random_basis_local": RandomBasis[c.get("random_basis_local", "NONE")] if tp != RequestType.K else RandomBasis.NONE,
        "random_basis_remote": RandomBasis[c.get("random_basis_remote", "NONE")] if tp == RequestType.M else RandomBasis.NONE,
        "minimum_fidelity": 0,
        "time_unit": TimeUnit[c["time_unit"]].value if "max_time" in c else 0,
        "max_time": c.get("max_time", 0),
        "priority": 0, "atomic": 0, "consecutive": 0,
        "probability_dist_local1": 0, "probability_dist_local2": 0, "probability_dist_remote1": 0, "probability_dist_remote2": 0,
    }
    rl = (0, 0, 0)
    rr = (0, 0, 0)
    if tp != RequestType.K:
        if "basis_local" in c:
            rl = basis_to_rotation(EprMeasBasis[c["basis_local"]])
        elif "rotations_local" in c:
            rl = tuple(c["rotations_local"])
        if "basis_remote" in c:
            rr = basis_to_rotation(EprMeasBasis[c["basis_remote"]])
        elif "rotations_remote" in c:
            rr = tuple(c["rotations_remote"])
    e.update({"rotation_X_local1": rl[0], "rotation_Y_local": rl[1], "rotation_X_local2": rl[2],
              "rotation_X_remote1": rr[0], "rotation_Y_remote": rr[1], "rotation_X_remote2": rr[2]})
    return e


def same_value(got: Any, want: Any) -> bool:
    """Equal as values AND of an acceptable kind: an enum-typed field must arrive as that enum."""
    if isinstance(want, Enum):
        return got is want or (isinstance(got, type(want)) and got == want)
    return (not isinstance(got, Enum)) and got == want


def _with_link(faults: Dict[str, int], link: Any) -> Dict[str, int]:
    for k in ("answered-from-inside-put",):
        if link.counters.get(k):
            faults[k] = faults.get(k, 0) + link.counters[k]
    return faults


def run(ch: Choices, opts: Dict[str, Any]) -> Dict[str, Any]:
    reset_globals()
    SimNetworkInfo.reset()
    avoid = set(opts.get("avoid", ()))
    trace = Trace()
    calm = ch.flag(1, 10, "calm")
    sched = Sched(ch, trace, mode="time" if calm else ch.pick(["mix", "time"]), max_cost=0 if calm else 30)
    qm = TraceQMem(lambda q: 0)
    link = FakeLink(ch, sched, trace, legacy=ch.flag(1, 3, "legacy"), max_gen_delay=0 if calm else 200,
                    max_deliver_delay=0 if calm else 200, distinct_fields=True)
    link.validate = False   # the conversion is judged by the oracle below, not by the stub
    link.eager = (not calm) and ch.flag(1, 4, "eager-link")   # the first pair may be answered from inside put()
    node = ControllerNode("n0", 0, qm, lambda: sched.now, flavour="vanilla", link=link)
    from sim.props.c12 import install_purpose_map
    if install_purpose_map(ch, node):
        pass
    pfun = node.stack.pfun
    calls = gen_calls(ch, avoid, calm)
    faults: Dict[str, int] = {}
    probes: Dict[str, int] = {}

    def bump(d, k, n=1):
        d[k] = d.get(k, 0) + n

    for nm, i in GHOSTS.items():
        SimNetworkInfo.node_ids[nm] = i
        SimNetworkInfo.app_nodes["app-" + nm] = nm
    sample = {"calls": calls}
    state: Dict[str, Any] = {"done": False}
    socks: Dict[Tuple[str, int], EPRSocket] = {}
    for c in calls:
        key = (c["peer"], c["sock"])
        if key not in socks:
            socks[key] = EPRSocket("app-" + c["peer"], epr_socket_id=c["sock"], remote_epr_socket_id=c["sock"] + 10)
    # two sockets with the same id to different peers would share a purpose id at this node: keep ids unique
    seen_ids: Dict[int, str] = {}
    for c in calls:
        if c["sock"] in seen_ids and seen_ids[c["sock"]] != c["peer"]:
            c["peer"] = seen_ids[c["sock"]]
        seen_ids[c["sock"]] = c["peer"]
    socks = {}
    for c in calls:
        key = (c["peer"], c["sock"])
        if key not in socks:
            socks[key] = EPRSocket("app-" + c["peer"], epr_socket_id=c["sock"], remote_epr_socket_id=c["sock"] + 10)
    if len({c["peer"] for c in calls}) == 3:
        bump(probes, "three-remote-nodes")
    if len(calls) != len({(c["peer"], c["sock"], c["kind"].split("_")[0]) for c in calls}):
        bump(probes, "two-calls-same-socket")

    def kwargs_of(c: Dict[str, Any]) -> Dict[str, Any]:
        kw: Dict[str, Any] = {"number": c["number"]}
        if "max_time" in c:
            kw["time_unit"] = TimeUnit[c["time_unit"]]
            kw["max_time"] = c["max_time"]
        for k in ("basis_local", "basis_remote"):
            if k in c:
                kw[k] = EprMeasBasis[c[k]]
        for k in ("rotations_local", "rotations_remote"):
            if k in c:
                kw[k] = tuple(c[k])
        for k in ("random_basis_local", "random_basis_remote"):
            if k in c:
                kw[k] = RandomBasis[c[k]]
        kw.update(mf_kw(c))
        return kw

    def mf_kw(c: Dict[str, Any]) -> Dict[str, Any]:
        mf = c.get("minfid")
        return {"min_fidelity_all_at_end": mf["fid"], "max_tries": mf["tries"]} if mf else {}

    def mf_plans(c: Dict[str, Any]) -> List[Optional[List[int]]]:
        """The generation durations the link reports, per attempt of this call (None: whatever the link draws)."""
        mf = c.get("minfid")
        if not mf:
            return [None]
        maxt = 100_000 - mf["fid"] * 900     # the documented conversion of the fidelity bound into a duration
        out: List[Optional[List[int]]] = []
        for a in range(mf["attempts"]):
            last = maxt + 1 + ch.draw(3, "over") if a < mf["attempts"] - 1 else max(0, maxt - ch.draw(3, "under"))
            out.append([ch.draw(2 * maxt, "dur") for _ in range(c["number"] - 1)] + [last])
        return out

    create_plans: Dict[int, List[Optional[List[int]]]] = {}     # purpose id -> plans of the create requests, in issue order

    def goodness(job, k):
        if job.get("request") is None:
            pl = job.get("tag")
        else:
            if "plan" not in job:
                fifo = create_plans.get(job["purpose_c"])
                job["plan"] = fifo.pop(0) if fifo else None
            pl = job["plan"]
        return None if pl is None or k >= len(pl) else pl[k]
    link.goodness_override = goodness

    def make_post(conn, n):
        outcomes = conn.new_array(n)

        def post(c2, q, pair):
            q.measure(future=outcomes.get_future_index(pair))
        bump(probes, "keep-sequential-post-routine")
        return post

    # injected fault (1 run in 5): a first create request, flushed on its own, is refused by the network stack; the
    # subroutine aborts and the later calls (possibly on the same socket) must be unaffected
    refuse_first = (not calm) and ch.flag(1, 5, "refuse")
    node.stack.refuse = lambda req: getattr(req, "max_time", 0) == 7777

    def host_task():
        conn = SimConnection("app", node, max_qubits=5, hardware_config=GenericHardwareConfig(5),
                             epr_sockets=list(socks.values()))
        state["conn"] = conn
        if refuse_first:
            c0 = calls[ch.draw(len(calls), "refwhich")]
            s0 = socks[(c0["peer"], c0["sock"])]
            s0.create_measure(number=1 + ch.draw(2, "refn"), time_unit=TimeUnit.MICRO_SECONDS, max_time=7777)
            conn.flush()
            try:
                for y in conn.drain():
                    yield y
                raise Violation("fault", "fault|refused-request-did-not-abort-the-subroutine", dict(sample))
            except RuntimeError as e:
                if "simulated fault" not in str(e):
                    raise
            bump(faults, "network-stack-refuses-request")
            bump(probes, "request-refused-by-stack")
        results = []
        for c in calls:
            s = socks[(c["peer"], c["sock"])]
            kind = c["kind"]
            kw = kwargs_of(c)
            try:
                if kind == "create_keep":
                    r = ("qubits", s.create_keep(**kw), None)
                elif kind == "create_keep_info" and c.get("sequential"):
                    q, info = s.create_keep_with_info(sequential=True, post_routine=make_post(conn, c["number"]), **kw)
                    r = ("qubits", q, info)
                elif kind == "recv_keep_info" and c.get("sequential"):
                    q, info = s.recv_keep_with_info(number=c["number"], sequential=True, post_routine=make_post(conn, c["number"]))
                    r = ("qubits", q, info)
                elif kind == "create_keep_info":
                    q, info = s.create_keep_with_info(**kw)
                    r = ("qubits", q, info)
                elif kind == "create_measure":
                    r = ("measure", s.create_measure(**kw), None)
                elif kind == "create_rsp":
                    r = ("measure", s.create_rsp(**kw), None)
                elif kind == "recv_keep":
                    r = ("qubits", s.recv_keep(number=c["number"], **mf_kw(c)), None)
                elif kind == "recv_keep_info":
                    q, info = s.recv_keep_with_info(number=c["number"])
                    r = ("qubits", q, info)
                elif kind == "recv_measure":
                    r = ("measure", s.recv_measure(number=c["number"]), None)
                elif kind == "recv_rsp":
                    r = ("qubits", s.recv_rsp(number=c["number"], **mf_kw(c)), None)
                else:
                    q, info = s.recv_rsp_with_info(number=c["number"])
                    r = ("qubits", q, info)
            except Violation:
                raise
            except Exception as e:  # noqa: BLE001
                fr = traceback.extract_tb(e.__traceback__)[-1]
                raise Violation("sdk", f"sdk-exception|{type(e).__name__}|{fr.name}|{kind}", {"call": c, "error": str(e)[:300], **sample})
            results.append(r)
            plans = mf_plans(c)
            if c.get("minfid"):
                bump(probes, "min-fidelity-constraint")
                if len(plans) > 1:
                    bump(probes, "min-fidelity-retried")
                    bump(faults, "link-reports-slow-generation", len(plans) - 1)
            if kind.startswith("create"):
                create_plans.setdefault(pfun(c["sock"], GHOSTS[c["peer"]]), []).extend(plans)
            if kind.startswith("recv"):
                tp = {"recv_keep": RequestType.K, "recv_keep_info": RequestType.K, "recv_measure": RequestType.M,
                      "recv_rsp": RequestType.R, "recv_rsp_info": RequestType.R}[kind]
                c["job_create_id"] = None
                for pl in plans:
                    link.submit(creator=GHOSTS[c["peer"]], receiver=0, purpose_c=c["sock"] + 10, purpose_r=c["sock"], tp=tp,
                                number=c["number"], tag=pl)
            bump(probes, "role-" + ("create" if kind.startswith("create") else "recv"))
            bump(probes, "type-" + ("K" if "keep" in kind else ("M" if "measure" in kind else "R")))
            if c["number"] >= 2:
                bump(probes, "pairs>=2")
            if "max_time" in c:
                bump(probes, "max_time-set")
            if "rotations_local" in c:
                bump(probes, "rotations-set")
            if "basis_local" in c:
                bump(probes, "named-basis")
            if "random_basis_local" in c:
                bump(probes, "random-basis-set")
            if kind.endswith("info"):
                bump(probes, "with-info")
            yield None
        state["results"] = results
        conn.flush()
        g = conn.drain()
        while True:
            try:
                y = next(g)
            except StopIteration:
                break
            except Violation:
                raise
            except Exception as e:  # noqa: BLE001
                fr = traceback.extract_tb(e.__traceback__)[-1]
                raise Violation("controller", f"controller-fault|{type(e).__name__}|{fr.name}",
                                {"error": str(e)[:400], "subroutine": _last_sub(conn)[:1500], **sample})
            yield y
        state["done"] = True

    sched.spawn("host", host_task(), party="host")
    sched.spawn("retry", node.retry_task(lambda: state["done"], ch, 100), party="ctrl-retry")

    def on_error(task, e):
        fr = traceback.extract_tb(e.__traceback__)[-1]
        raise Violation("controller", f"controller-fault-on-delivery|{type(e).__name__}|{fr.name}",
                        {"task": task.name, "error": str(e)[:300], **sample})
    sched.on_error = on_error
    from sim.rigs.controller import LivenessWatch
    watch = LivenessWatch(sched, [node], link, window=8000, hard=400000)
    while not state["done"]:
        if sched.step() is None:
            raise Violation("liveness", "liveness|deadlock", dict(sample))
        stuck = watch.verdict()
        if stuck:
            raise Violation("liveness", f"liveness|{stuck}", dict(sample))
    link.stop()
    conn = state["conn"]

    # ---- request side ---------------------------------------------------------
    creates = [c for c in calls if c["kind"].startswith("create") for _ in range((c.get("minfid") or {}).get("attempts", 1))]
    puts = node.stack.puts
    if len(puts) != len(creates):
        raise Violation("request", "request|count", {"puts": len(puts), "creates": len(creates), **sample})
    for c, req in zip(creates, puts):
        want = expected_request(c)
        want["purpose_id"] = pfun(c["sock"], GHOSTS[c["peer"]])     # what this node's stack assigns to the socket
        for field, wv in want.items():
            gv = getattr(req, field)
            if not same_value(gv, wv):
                kind = "wrong-type" if (gv == wv or (isinstance(wv, Enum) and gv == wv.value)) else "wrong-value"
                raise Violation("request", f"request|{kind}|{field}", {"field": field, "got": repr(gv), "want": repr(wv),
                                                                      "call": c, "request": repr(req), **sample})
        try:
            conv = request_to_qlink_1_0(req)
        except Exception as e:  # noqa: BLE001
            raise Violation("request", f"request|not-accepted-by-link-layer-conversion|type-{want['type'].name}|{type(e).__name__}",
                            {"error": str(e)[:300], "call": c, "request": repr(req), **sample})
        # the link-layer form must carry the same values (field names of the qlink-interface dataclasses)
        qmap = {"remote_node_id": "remote_node_id", "purpose_id": "purpose_id", "number": "number", "max_time": "max_time",
                "time_unit": "time_unit", "minimum_fidelity": "minimum_fidelity", "priority": "priority",
                "atomic": "atomic", "consecutive": "consecutive"}
        if want["type"] != RequestType.K:
            qmap.update({"rotation_X_local1": "x_rotation_angle_local_1", "rotation_Y_local": "y_rotation_angle_local",
                         "rotation_X_local2": "x_rotation_angle_local_2", "random_basis_local": "random_basis_local"})
        if want["type"] == RequestType.M:
            qmap.update({"rotation_X_remote1": "x_rotation_angle_remote_1", "rotation_Y_remote": "y_rotation_angle_remote",
                         "rotation_X_remote2": "x_rotation_angle_remote_2", "random_basis_remote": "random_basis_remote"})
        for field, qfield in qmap.items():
            gv = getattr(conv, qfield)
            wv = want[field]
            gvv = gv.value if isinstance(gv, Enum) else gv
            wvv = wv.value if isinstance(wv, Enum) else wv
            if gvv != wvv:
                raise Violation("request", f"request|link-layer-form-wrong-value|{qfield}",
                                {"field": qfield, "got": repr(gv), "want": repr(wv), "call": c, "converted": repr(conv), **sample})
        tname = {RequestType.K: "ReqCreateAndKeep", RequestType.M: "ReqMeasureDirectly", RequestType.R: "ReqRemoteStatePrep"}[want["type"]]
        if type(conv).__name__ != tname:
            raise Violation("request", "request|link-layer-form-wrong-class", {"got": type(conv).__name__, "want": tname, **sample})

    # ---- response side ----------------------------------------------------------
    # deliveries grouped per request in delivery order
    by_key: Dict[Tuple[str, int, int], List[dict]] = {}
    for d in link.delivered:
        by_key.setdefault((d["role"], d["remote"], d["purpose"]), []).append(d)
    cursor: Dict[Tuple[str, int, int], int] = {}
    um = node.unit_module(conn.app_id)
    for c, (rk, handles, infos) in zip(calls, state["results"]):
        role = "create" if c["kind"].startswith("create") else "recv"
        key = (role, GHOSTS[c["peer"]], pfun(c["sock"], GHOSTS[c["peer"]]))
        att = (c.get("minfid") or {}).get("attempts", 1)
        off = cursor.get(key, 0) + (att - 1) * c["number"]      # a re-tried request: the handles read the last attempt
        cursor[key] = off + c["number"]
        resp = by_key.get(key, [])[off:off + c["number"]]
        if len(resp) != c["number"]:
            raise Violation("response", "response|missing", {"call": c, "got": len(resp), **sample})
        for i, d in enumerate(resp):
            r = d["resp"]
            bell = d["rec"]["bell"].value
            good = getattr(r, "goodness")

            def chk(what: str, got: Any, want: Any) -> None:
                if got != want:
                    other = [j for j, d2 in enumerate(resp) if j != i and _field(d2, what) == got]
                    cls = "other-pairs-value" if other else "wrong-value"
                    raise Violation("response", f"response|{cls}|{what}|{'K' if rk == 'qubits' else 'M'}",
                                    {"call": c, "pair": i, "field": what, "got": got, "want": want, **sample})
            if rk == "qubits":
                q = handles[i]
                ei = q.entanglement_info
                chk("create_id", ei.create_id.value, r.create_id)
                chk("logical_qubit_id", ei.logical_qubit_id.value, r.logical_qubit_id)
                chk("directionality_flag", ei.directionality_flag.value, r.directionality_flag)
                chk("sequence_number", ei.sequence_number.value, r.sequence_number)
                chk("purpose_id", ei.purpose_id.value, r.purpose_id)
                chk("remote_node_id", ei.remote_node_id.value, r.remote_node_id)
                chk("goodness", ei.goodness.value, good)
                chk("goodness_time", ei.goodness_time.value, _field(d, "goodness_time"))
                chk("bell_state", ei.bell_state.value, bell)
                if q.remote_entangled_node != c["peer"]:
                    chk("remote_entangled_node", q.remote_entangled_node, c["peer"])
                if not c.get("sequential") and um[q.qubit_id] != r.logical_qubit_id:
                    chk("mapped-physical-qubit", um[q.qubit_id], r.logical_qubit_id)
                if infos is not None:
                    inf = infos[i]
                    chk("info.qubit_id", inf.qubit_id.value, r.logical_qubit_id)
                    chk("info.remote_node_id", inf.remote_node_id.value, r.remote_node_id)
                    chk("info.generation_duration", inf.generation_duration.value, good)
                    chk("info.bell_state", inf.bell_state.value, bell)
            else:
                m = handles[i]
                chk("measurement_outcome", m.raw_measurement_outcome.value, int(r.measurement_outcome))
                chk("remote_node_id", m.remote_node_id.value, r.remote_node_id)
                chk("goodness", m.generation_duration.value, good)
                chk("bell_state", m.bell_state.value, bell)
                want_rl = (0, 0, 0)
                if c["kind"].startswith("create"):
                    e = expected_request(c)
                    want_rl = (e["rotation_X_local1"], e["rotation_Y_local"], e["rotation_X_local2"])
                chk("measurement_basis_local", tuple(m.measurement_basis_local), want_rl)
    if qm.errors:
        raise Violation("response", "memory|" + qm.errors[0].split(" ")[0], {"errors": qm.errors[:3], **sample})
    conn.close()
    try:
        conn.drain_now()
    except Exception:  # noqa: BLE001
        pass
    nontrivial = any(c["number"] >= 2 or len(c) > 4 for c in calls)
    h = hashlib.blake2b(repr((calls, [repr(d["resp"]) for d in link.delivered])).encode(), digest_size=10).hexdigest()
    bump(faults, "response-fields-drawn-independently", len(link.delivered))
    if node.env.retry_count:
        bump(faults, "retry-timer-fired", node.env.retry_count)
    return {
        "digest": trace.digest(), "fingerprint": h, "nontrivial": bool(nontrivial), "events": sched.steps,
        "sim_ns": sched.now, "faults": _with_link(faults, link), "probes": probes, "calm": calm,
        "sample": {"calls": calls, "first_request": repr(puts[0]) if puts else None,
                   "first_response": repr(link.delivered[0]["resp"]) if link.delivered else None},
    }


def _field(d: dict, what: str) -> Any:
    r = d["resp"]
    if what == "goodness_time":
        v = getattr(r, "time_of_goodness", None)
        return v if v is not None else getattr(r, "goodness_time", None)
    if what == "bell_state":
        return d["rec"]["bell"].value
    if what == "goodness":
        return r.goodness
    return getattr(r, what, None)


def cleanup() -> None:
    reset_globals()
    SimNetworkInfo.reset()
