"""C04 -- Executor implements the NetQASM classical semantics and faults precisely.

Workload: 1-3 applications on one real QNodeController, 1-4 random subroutines each
(arbitrary jump targets, all register banks, arrays, planted faults), sent as real
serialised messages.  The scheduler interleaves the in-flight subroutines one
instruction at a time.  Oracle: an independent reference interpreter stepped in
lock-step -- registers, arrays, program counter, shared memory and allocated virtual
qubits must agree after every instruction; a faulting instruction must raise at that
instruction, name its line, have no effect, and end the subroutine.
"""
from __future__ import annotations

from typing import Any, Dict, List, Optional, Tuple

from sim.core import Choices, Discard, Sched, Trace, Violation
from sim.models.netqasm_ref import AppState, OutOfDomain, RefFault, step as ref_step
from sim.rigs.controller import ControllerNode, subroutine_bytes
from sim.stubs.backend import reset_globals
from sim.stubs.qmem_trace import TraceQMem

PROP = "C04"
RUNS = {"quick": 20000, "thorough": 2000000}
BUDGET_S = {"quick": 60, "thorough": 1500}
RULE = ("one run = swarm config + 1-3 apps x 1-4 random core-NetQASM subroutines (3-25 instructions, arbitrary "
        "branch targets, planted faults) executed on the real controller under a seeded instruction-level "
        "interleaving; non-trivial = at least two applications' subroutines actually interleaved (party switches "
        "beyond start-up) or a fault/branch was exercised in a multi-subroutine history; distinct = distinct "
        "(interleaving fingerprint, program digest)")
COMPONENTS = {
    "real": ["netqasm.backend.qnodeos.QNodeController (message dispatch)", "netqasm.backend.messages (de)serialisation",
             "netqasm.lang.parsing.binary.deserialize", "netqasm.backend.executor.Executor (all _instr_*/_handle_* "
             "classical handlers, program counters, unit modules)", "netqasm.sdk.shared_memory (Arrays, RegisterGroup, "
             "SharedMemory, SharedMemoryManager)"],
    "stub": ["SimExecutor hooks (_execute_command yield, quantum no-op trace memory)", "scheduler", "program generator",
             "reference interpreter sim/models/netqasm_ref.py (oracle)"],
}
ASSUMPTIONS = [
    "reference interpreter sim/models/netqasm_ref.py is the trusted statement of the instruction semantics",
    "domain: registers read by arithmetic/branches are defined, indices and qubit addresses non-negative, results within "
    "32 bits; runs leaving the domain are abandoned for that application and counted, not judged",
    "shared-memory arrays are compared at the ret_arr instruction (the simulator's SharedMemory aliases the array "
    "afterwards, which the SDK relies on; later freshness is not demanded either way)",
    "subroutines of one application may be in flight together (a third of the stormy runs); every instruction but a "
    "blocked wait is atomic, so the reference interpreter is stepped in the same order; when the operands of a blocked "
    "wait_single are changed by another subroutine the outcome is not judged (only the line named by a fault is)",
]
PROBES = ["fault:planted", "fault:emergent", "branch:taken", "branch:not-taken", "interleaved-apps", "step-cap",
          "later-subroutine-reuses-state", "jump-past-end", "wait-blocked-poll", "wait-satisfied-by-another-subroutine",
          "fault-after-suspension", "wait-operands-changed-while-blocked"]

POOL = [("R", 0), ("R", 1), ("R", 2), ("R", 3), ("C", 0), ("C", 1), ("Q", 0), ("Q", 1), ("M", 0), ("R", 14), ("C", 15)]
NEVER = [("R", 15), ("M", 15)]
VALUES = [0, 1, 2, 3, 4, 5, -1, -2, 7, 2 ** 31 - 1, -(2 ** 31)]
STEP_CAP = 200


class Gen:
    """Program generator with a straight-line shadow state so that most operands are
    valid most of the time; branches make the real control flow differ from it."""

    WEIGHTS = [4, 3, 2, 2, 3, 3, 1, 1, 4, 1, 1, 1, 2, 2, 1]

    def __init__(self, ch: Choices, unit_size: int, plant: bool, weights: Optional[List[int]] = None, waits: bool = False):
        self.ch = ch
        self.weights = list(weights or self.WEIGHTS) + ([3] if waits else [])
        self.shadow = AppState(unit_size)
        self.plant = plant
        self.planted = 0
        self.wait_targets: List[Tuple[int, int]] = []

    def reg(self, pool=POOL):
        return pool[self.ch.draw(len(pool), "reg")]

    def small(self):
        return VALUES[self.ch.weighted([6, 6, 4, 3, 2, 2, 2, 1, 1, 1, 1], "val")]

    def idx_reg_for(self, addr: int, want_valid: bool):
        """Pick a register whose shadow value is a valid (or invalid) index for array addr."""
        arr = self.shadow.arrays.get(addr)
        n = len(arr) if arr is not None else 0
        cands = [r for r in POOL if (0 <= self.shadow.regs.get(r, -1) < n) == want_valid
                 and self.shadow.regs.get(r, 0) >= 0]
        if cands:
            return cands[self.ch.draw(len(cands), "idxreg")]
        return self.reg()

    def preamble(self) -> List[tuple]:
        out = []
        for r in POOL:
            v = self.ch.draw(4, "pre") if r[0] != "Q" else self.ch.draw(max(1, self.shadow.unit_size), "preq")
            out.append(("set", r, v))
        return out

    def one(self, pc: int, n: int) -> tuple:
        ch = self.ch
        sh = self.shadow
        k = ch.weighted(self.weights, "op")
        if k == 0:
            r = self.reg()
            v = self.small() if r[0] != "Q" else ch.draw(sh.unit_size + 1, "qv")
            return ("set", r, v)
        if k == 1:
            return (ch.pick(["add", "sub"]), self.reg(), self.reg(), self.reg())
        if k == 2:
            return (ch.pick(["addm", "subm"]), self.reg(), self.reg(), self.reg(), self.reg())
        if k == 3:
            return ("array", self.reg([("C", 0), ("C", 1), ("R", 0), ("R", 14)]), ch.draw(3, "addr"))
        if k == 4 and self.wait_targets and ch.flag(1, 2, "store-for-wait"):
            addr, idx = self.wait_targets[ch.draw(len(self.wait_targets), "wt")]
            r = self.reg([("R", 3), ("C", 1), ("M", 0)])
            return [("set", r, idx), ("store", self.reg(), addr, r)]
        if k in (4, 5, 7):
            addrs = sorted(sh.arrays) or [0]
            addr = addrs[ch.draw(len(addrs), "addr")] if not ch.flag(1, 12) else ch.draw(4, "addr")
            ridx = self.idx_reg_for(addr, want_valid=not ch.flag(1, 10))
            if k == 4:
                return ("store", self.reg(), addr, ridx)
            if k == 5:
                return ("load", self.reg(), addr, ridx)
            return ("undef", addr, ridx)
        if k == 6:
            return ("lea", self.reg(), ch.draw(4, "addr"))
        if k == 8:
            if ch.flag(7, 10):
                tgt = pc + 1 + ch.draw(max(1, n - pc), "tgt")  # forward, may be == n (just past the end)
            else:
                tgt = ch.draw(n + 1, "tgt")
            tgt = min(tgt, n)
            b = ch.draw(6, "br")
            if b < 4:
                return (["beq", "bne", "blt", "bge"][b], self.reg(), self.reg(), tgt)
            return (["bez", "bnz"][b - 4], self.reg(), tgt)
        if k == 9:
            tgt = min(n, pc + 1 + ch.draw(max(1, n - pc), "tgt")) if ch.flag(4, 5) else ch.draw(n + 1, "tgt")
            return ("jmp", tgt)
        if k == 10:
            return ("ret_reg", self.reg())
        if k == 11:
            addrs = sorted(sh.arrays) or [0]
            return ("ret_arr", addrs[ch.draw(len(addrs), "addr")] if not ch.flag(1, 12) else ch.draw(4, "addr"))
        if k == 15:
            # wait for an entry another in-flight subroutine of the same application may (or may never) define
            addrs = sorted(sh.arrays) or [0]
            addr = addrs[ch.draw(len(addrs), "addr")]
            ridx = self.idx_reg_for(addr, want_valid=not ch.flag(1, 8))
            if ch.flag(2, 3, "wait-undef") and sh.arrays.get(addr) and 0 <= sh.regs.get(ridx, -1) < len(sh.arrays[addr]):
                # make it an entry that is undefined now, and remember it so that a later program (another lane) aims a store at it
                self.wait_targets.append((addr, sh.regs[ridx]))
                return [("undef", addr, ridx), ("wait_single", addr, ridx)]
            return ("wait_single", addr, ridx)
        if k in (12, 13):
            op = "qalloc" if k == 12 else "qfree"
            q = self.reg([("Q", 0), ("Q", 1)])
            if ch.flag(3, 4, "qvalid"):
                # aim at an id that is valid per the shadow state (free for qalloc, allocated for qfree)
                ids = [i for i in range(sh.unit_size) if (i in sh.qubits) == (op == "qfree")]
                if ids:
                    return [("set", q, ids[ch.draw(len(ids), "qid")]), (op, q)]
            return (op, q)
        return (ch.pick(["init", "x", "h", "z"]), self.reg([("Q", 0), ("Q", 1)]))

    def planted_fault(self) -> List[tuple]:
        ch = self.ch
        k = ch.draw(6, "plant")
        self.planted += 1
        if k == 0:
            return [("array", ("C", 0), 3), ("store", NEVER[ch.draw(2)], 3, ("C", 1))]
        if k == 1:
            return [("set", ("C", 0), 2), ("array", ("C", 0), 3), ("set", ("C", 1), 1), ("load", ("R", 0), 3, ("C", 1))]
        if k == 2:
            return [("set", ("R", 3), -ch.draw(2)), (ch.pick(["addm", "subm"]), ("R", 0), ("R", 1), ("R", 2), ("R", 3))]
        if k == 3:
            return [("set", ("Q", 0), 0), ("qalloc", ("Q", 0)), ("qalloc", ("Q", 0))]
        if k == 4:
            return [("set", ("Q", 1), 0), ("qfree", ("Q", 1)), ("qfree", ("Q", 1))]
        return [("set", ("C", 0), 2), ("array", ("C", 0), 3), ("set", ("C", 1), 2 + ch.draw(2)),
                (ch.pick(["store", "undef_", "load"]), ("R", 0), 3, ("C", 1))]

    def program(self, first: bool) -> List[tuple]:
        ch = self.ch
        n_body = 3 + ch.draw(23, "len")
        prog: List[tuple] = self.preamble() if first else []
        base = len(prog)
        plant_at = ch.draw(n_body, "plantpos") if self.plant and ch.flag(1, 2) else -1
        total = base + n_body
        body: List[tuple] = []
        i = 0
        while len(body) < n_body:
            pc = base + len(body)
            if len(body) == plant_at:
                pf = [t if t[0] != "undef_" else ("undef", t[2], t[3]) for t in self.planted_fault()]
                body.extend(pf)
                total += len(pf) - 1
                n_body += len(pf) - 1
                for t in pf:
                    self._shadow_step(t)
                continue
            t = self.one(pc, total)
            for t1 in (t if isinstance(t, list) else [t]):
                body.append(t1)
                self._shadow_step(t1)
            if isinstance(t, list):
                total += len(t) - 1
                n_body += len(t) - 1
        prog.extend(body)
        # clamp branch targets to the final length
        n = len(prog)
        out = []
        for t in prog:
            if t[0] in ("beq", "bne", "blt", "bge"):
                t = (t[0], t[1], t[2], min(t[3], n))
            elif t[0] in ("bez", "bnz"):
                t = (t[0], t[1], min(t[2], n))
            elif t[0] == "jmp":
                t = ("jmp", min(t[1], n))
            out.append(t)
        return out

    def handshake_programs(self) -> Tuple[List[tuple], List[tuple]]:
        """Two programs for two lanes of one application that meet at a wait: the first declares an array and blocks on
        an undefined entry; the second (started while the first is blocked, or at a random moment) defines that entry --
        or pulls the rug: moves the wait's index register past the end / re-declares the array shorter, so that the
        suspended instruction faults when it is resumed.  Everything up to the wait is fault-free by construction."""
        ch = self.ch
        n = 1 + ch.draw(3, "hs-n")
        addr = ch.draw(3, "hs-addr")
        idx = ch.draw(n, "hs-idx")
        rw = [("R", 2), ("C", 1), ("M", 0), ("R", 14)][ch.draw(4, "hs-rw")]
        p0: List[tuple] = self.preamble()
        for _ in range(ch.draw(12, "hs-pad0")):      # the wait sits at a varying line
            p0.append(("set", ("R", 0), ch.draw(4, "pad")))
        p0 += [("set", ("C", 0), n), ("array", ("C", 0), addr), ("set", rw, idx), ("wait_single", addr, rw)]
        for t in p0[len(POOL):]:
            self._shadow_step(t)
        tail_n = ch.draw(6, "hs-tail")
        for _ in range(tail_n):
            t = self.one(len(p0), len(p0) + tail_n)
            for t1 in (t if isinstance(t, list) else [t]):
                p0.append(t1)
                self._shadow_step(t1)
        p0 = [((t[0], t[1], t[2], min(t[3], len(p0))) if t[0] in ("beq", "bne", "blt", "bge") else
               (t[0], t[1], min(t[2], len(p0))) if t[0] in ("bez", "bnz") else
               ("jmp", min(t[1], len(p0))) if t[0] == "jmp" else t) for t in p0]
        p1: List[tuple] = []
        for _ in range(ch.draw(8, "hs-pad1")):        # the other lane is at a different line when it acts
            p1.append(("set", NEVER[1], ch.draw(4, "pad")))
        how = ch.weighted([4, 2, 2, 1], "hs-how")
        if how == 0:
            p1 += [("set", NEVER[1], ch.draw(5, "hs-val")), ("set", NEVER[0], idx), ("store", NEVER[1], addr, NEVER[0])]
        elif how == 1:
            p1 += [("set", rw, n + ch.draw(3, "hs-over"))]                       # index past the end while blocked
        elif how == 2:
            p1 += [("set", NEVER[1], idx), ("array", NEVER[1], addr)]          # re-declared with length idx (<= idx: too short)
        else:
            p1 += [("set", NEVER[1], 0)]                                         # never released
        for _ in range(ch.draw(4, "hs-pad2")):
            p1.append(("set", NEVER[1], ch.draw(4, "pad")))
        for t in p1:
            self._shadow_step(t)
        return p0, p1

    def feeder_program(self) -> List[tuple]:
        """A program for another lane that defines the entries earlier programs wait for (in some order, some of them),
        between a few harmless instructions, so that blocked waits are actually released by a concurrent subroutine."""
        ch = self.ch
        # only registers no other program writes (NEVER): the feeder must not disturb the operands of the blocked waits
        prog: List[tuple] = [("set", NEVER[1], ch.draw(4, "feedval"))]
        tg = list(self.wait_targets)
        while tg:
            addr, idx = tg.pop(ch.draw(len(tg), "feed"))
            if ch.flag(1, 4, "feed-skip"):
                continue
            for _ in range(ch.draw(3, "feed-pad")):
                prog.append(("set", NEVER[1], ch.draw(4, "pad")))
            prog.append(("set", NEVER[0], idx))
            prog.append(("store", NEVER[1], addr, NEVER[0]))
        for t in prog:
            self._shadow_step(t)
        return prog

    def _shadow_step(self, t: tuple) -> None:
        if t[0] in ("beq", "bne", "blt", "bge", "bez", "bnz", "jmp"):
            return
        try:
            ref_step(self.shadow, [t], 0)
        except (RefFault, OutOfDomain):
            pass


def _cmp_state(node: ControllerNode, app_id: int, st: AppState, where: str, sample: Any) -> None:
    real_regs = node.regs(app_id)
    if real_regs != st.regs:
        diff = {k: (real_regs.get(k), st.regs.get(k)) for k in set(real_regs) | set(st.regs)
                if real_regs.get(k) != st.regs.get(k)}
        raise Violation("lockstep", f"lockstep|registers|{where}", {"diff(real,model)": diff, **sample})
    real_arr = node.arrays(app_id)
    if real_arr != st.arrays:
        raise Violation("lockstep", f"lockstep|arrays|{where}", {"real": real_arr, "model": st.arrays, **sample})
    if node.shm_regs(app_id) != st.shm_regs:
        raise Violation("lockstep", f"lockstep|shared-registers|{where}",
                        {"real": node.shm_regs(app_id), "model": st.shm_regs, **sample})
    if sorted(node.shm_arrays(app_id)) != sorted(st.shm_arrays):
        raise Violation("lockstep", f"lockstep|shared-array-set|{where}",
                        {"real": sorted(node.shm_arrays(app_id)), "model": sorted(st.shm_arrays), **sample})
    mapped = {p for um in node.ex._qubit_unit_modules.values() for p in um if p is not None}
    if set(node.ex._used_physical_qubit_addresses) != mapped:
        raise Violation("lockstep", f"lockstep|physical-pool-bookkeeping|{where}",
                        {"used": sorted(node.ex._used_physical_qubit_addresses), "mapped": sorted(mapped), **sample})
    if set(node.allocated(app_id)) != st.qubits:
        raise Violation("lockstep", f"lockstep|allocated-qubits|{where}",
                        {"real": node.allocated(app_id), "model": sorted(st.qubits), **sample})


def run(ch: Choices, opts: Dict[str, Any]) -> Dict[str, Any]:
    reset_globals()
    trace = Trace()
    calm = ch.flag(1, 8, "calm")
    deep = (not calm) and opts.get("tier") == "thorough" and ch.flag(1, 2, "deep")   # deeper bounds in half of the thorough runs
    n_apps = 1 if calm else 1 + ch.draw(3, "napps")
    mode = "time" if calm or ch.flag(1, 3, "mode") else "mix"
    sched = Sched(ch, trace, mode=mode, max_cost=0 if calm else 50)
    qm = TraceQMem(lambda q: 0)
    node = ControllerNode("n0", 0, qm, lambda: sched.now, flavour="vanilla", with_stack=False)
    faults: Dict[str, int] = {}
    probes: Dict[str, int] = {}

    def bump(d, k, n=1):
        d[k] = d.get(k, 0) + n

    apps = []
    progs_digest = []
    for a in range(n_apps):
        unit = 1 + ch.draw(4, "unit")
        n_subs = 1 + ch.draw(10 if deep else 4, "nsubs")
        # lanes: subroutines of ONE application in flight together (what a host gets with non-blocking flushes); they
        # share the application's registers, arrays and unit module, and one may wait for an entry another defines
        n_lanes = 1 if calm or not ch.flag(1, 3, "lanes") else 2
        g = Gen(ch, unit, plant=ch.flag(1, 2, "plantflag"), waits=n_lanes > 1)
        feeder = False
        if n_lanes > 1 and ch.flag(1, 2, "handshake"):
            hs0, hs1 = g.handshake_programs()
            lanes = [[hs0] + [g.program(first=False) for k in range(ch.draw(3, "nsubs1"))],
                     [hs1] + [g.program(first=False) for k in range(ch.draw(2, "nsubs2"))]]
            feeder = True
            bump(probes, "handshake-shape")
        else:
            lanes = [[g.program(first=(k == 0)) for k in range(n_subs)]]
        if n_lanes > 1 and len(lanes) == 1:
            feeder = bool(g.wait_targets) and ch.flag(2, 3, "feeder")
            lanes.append(([g.feeder_program()] if feeder else [])
                         + [g.program(first=False) for k in range(ch.draw(3, "nsubs2") + (0 if feeder else 1))])
        progs = lanes[0]
        if g.planted:
            bump(faults, "planted-program-fault", g.planted)
        if n_lanes > 1:
            bump(faults, "same-application-subroutines-in-flight-together")
        node.init_app(a, unit)
        apps.append({"id": a, "unit": unit, "progs": progs, "lanes": lanes, "model": AppState(unit), "abandoned": None,
                     "live": n_lanes, "blocked": 0, "feeder": bool(n_lanes > 1 and feeder)})
        progs_digest.append(repr(lanes))

    sample = {"config": {"apps": n_apps, "mode": mode, "calm": calm,
                         "units": [a["unit"] for a in apps], "lanes": [len(a["lanes"]) for a in apps]},
              "programs": {a["id"]: (a["progs"] if len(a["lanes"]) == 1 else {"lane%d" % i: l for i, l in enumerate(a["lanes"])})
                           for a in apps}}

    def app_task(app, lane=0):
        try:
            if lane:
                # the second lane starts some turns into the first one's work
                if app.get("feeder") and ch.flag(2, 3, "feeder-when-blocked"):
                    yield ("block", lambda: app["blocked"] > 0 or app["live"] <= 1)
                else:
                    for _ in range(ch.draw(30, "lane-start")):
                        yield ("sleep", 1)
            yield from lane_task(app, lane)
        finally:
            app["live"] -= 1

    def lane_task(app, lane):
        aid = app["id"]
        st: AppState = app["model"]
        for k0, prog in enumerate(app["lanes"][lane]):
            k = k0 if lane == 0 else f"{lane}.{k0}"
            if k0 > 0:
                bump(probes, "later-subroutine-reuses-state")
            raw = subroutine_bytes(prog, aid, node.flavour)
            g = node.handle_raw(raw)
            mpc = 0
            nsteps = 0
            where_sub = f"sub{k}"
            wait_polled = False
            wait_at: Any = None      # (pc, index value, array object) at the first poll of the wait the lane is blocked in
            while True:
                if app["abandoned"]:
                    return
                if mpc >= len(prog):
                    # model says the subroutine is over: the real generator must finish without further instructions
                    try:
                        y = next(g)
                    except StopIteration:
                        break
                    raise Violation("lockstep", "lockstep|extra-instruction-after-end",
                                    {"app": aid, "sub": k, "yield": repr(y), **sample})
                ins = prog[mpc]
                if ins[0] == "wait_single":
                    ops_now = (mpc, st.regs.get(ins[2]), st.arrays.get(ins[1]))
                    if wait_at is None or wait_at[0] != mpc:
                        wait_at = ops_now
                    elif wait_at[1] != ops_now[1] or wait_at[2] is not ops_now[2]:
                        # another subroutine of the application changed the index register or re-declared the array while
                        # this one was suspended inside the wait: whether the instruction looks at the new or the old
                        # entry is not prescribed, so the outcome is not judged -- but a fault raised now is raised by
                        # THIS instruction and must name its line
                        bump(probes, "wait-operands-changed-while-blocked")
                        try:
                            next(g)
                        except StopIteration:
                            pass
                        except Violation:
                            raise
                        except Exception as e:  # noqa: BLE001
                            bump(probes, "fault-after-suspension")
                            if not str(e).startswith(f"At line {mpc}:"):
                                raise Violation("fault", "fault|wrong-line|after-suspension",
                                                {"app": aid, "sub": k, "pc": mpc, "instr": ins, "error": str(e)[:200], **sample})
                        app["abandoned"] = "operands of a blocked wait changed"
                        bump(probes, "abandoned:blocked-wait-operands")
                        return
                else:
                    wait_at = None
                # what does the model say about this instruction?
                exp_fault: Optional[str] = None
                before = None
                try:
                    npc = ref_step(st, prog, mpc)
                except RefFault as f:
                    exp_fault = f.kind
                    npc = None
                except OutOfDomain as od:
                    app["abandoned"] = str(od)
                    bump(probes, "abandoned:" + str(od).split(" ")[0])
                    return
                try:
                    y = next(g)
                except StopIteration:
                    raise Violation("lockstep", "lockstep|subroutine-ended-early",
                                    {"app": aid, "sub": k, "model_pc": mpc, "instr": ins, **sample})
                except Violation:
                    raise
                except Exception as e:  # noqa: BLE001 -- an observation: the executor faulted
                    msg = str(e)
                    if exp_fault is None:
                        raise Violation("fault", f"fault|unexpected|{ins[0]}|{type(e).__name__}",
                                        {"app": aid, "sub": k, "pc": mpc, "instr": ins, "error": msg[:300], **sample})
                    if not msg.startswith(f"At line {mpc}:"):
                        raise Violation("fault", f"fault|wrong-line|{exp_fault}",
                                        {"app": aid, "sub": k, "pc": mpc, "instr": ins, "error": msg[:200], **sample})
                    _cmp_state(node, aid, st, f"after-fault:{exp_fault}", {"app": aid, "sub": k, "pc": mpc, "instr": ins, **sample})
                    bump(faults, "program-fault:" + exp_fault)
                    bump(probes, "fault:emergent")
                    trace.add("fault", aid, k, mpc, exp_fault)
                    # the subroutine is dead; the generator must not continue
                    try:
                        y2 = next(g)
                        raise Violation("fault", "fault|continued-after-fault", {"app": aid, "sub": k, "pc": mpc, **sample})
                    except StopIteration:
                        pass
                    break
                # real executor executed one instruction without raising
                if y == ("wait",):
                    # suspended inside a wait: the model must say the entry is (still) undefined
                    if not (ins[0] == "wait_single" and exp_fault is None and npc == mpc):
                        raise Violation("lockstep", f"lockstep|blocked-unexpectedly|{ins[0]}",
                                        {"app": aid, "sub": k, "pc": mpc, "instr": ins, "model_fault": exp_fault, **sample})
                    _cmp_state(node, aid, st, "wait-poll", {"app": aid, "sub": k, "pc": mpc, "instr": ins, **sample})
                    bump(probes, "wait-blocked-poll")
                    if not wait_polled:
                        app["blocked"] += 1
                    wait_polled = True
                    nsteps += 1
                    if app["live"] <= 1 or nsteps >= STEP_CAP:
                        # nobody is left who could define the entry (or the bound is reached): the lane is given up
                        bump(probes, "wait-never-satisfied")
                        return
                    yield y
                    continue
                if not (isinstance(y, tuple) and y and y[0] == "instr"):
                    raise Violation("lockstep", "lockstep|unexpected-yield", {"yield": repr(y), **sample})
                if exp_fault is not None:
                    raise Violation("fault", f"fault|missing|{exp_fault}|{ins[0]}",
                                    {"app": aid, "sub": k, "pc": mpc, "instr": ins, **sample})
                if y[2] != mpc:
                    raise Violation("lockstep", f"lockstep|pc-before|{ins[0]}",
                                    {"real_pc": y[2], "model_pc": mpc, "app": aid, "sub": k, **sample})
                sid = y[1]
                real_next = node.ex._program_counters[sid]
                if real_next != npc:
                    raise Violation("lockstep", f"lockstep|pc-after|{ins[0]}",
                                    {"real_pc": real_next, "model_pc": npc, "at": mpc, "instr": ins, "app": aid, "sub": k, **sample})
                _cmp_state(node, aid, st, ins[0], {"app": aid, "sub": k, "pc": mpc, "instr": ins, **sample})
                if ins[0] == "ret_arr":
                    ra = node.shm_arrays(aid).get(ins[1])
                    if ra != st.shm_arrays[ins[1]]:
                        raise Violation("lockstep", "lockstep|shared-array-content|ret_arr",
                                        {"real": ra, "model": st.shm_arrays[ins[1]], "app": aid, **sample})
                if ins[0] in ("beq", "bne", "blt", "bge", "bez", "bnz"):
                    bump(probes, "branch:taken" if npc != mpc + 1 or ins[-1] == mpc + 1 else "branch:not-taken")
                if npc is not None and npc >= len(prog) and ins[0] in ("beq", "bne", "blt", "bge", "bez", "bnz", "jmp") and npc != mpc + 1:
                    bump(probes, "jump-past-end")
                if ins[0] == "wait_single" and wait_polled:
                    bump(probes, "wait-satisfied-by-another-subroutine")
                    app["blocked"] -= 1
                wait_polled = False
                trace.add("i", aid, k, mpc, ins[0])
                mpc = npc
                nsteps += 1
                if nsteps >= STEP_CAP:
                    bump(probes, "step-cap")
                    app["abandoned"] = "step-cap"
                    return
                yield y

    for app in apps:
        for ln in range(len(app["lanes"])):
            sched.spawn(f"app{app['id']}" + (f".{ln}" if ln else ""), app_task(app, ln), party=f"app{app['id']}" + (f".{ln}" if ln else ""))
    cap = 4000
    while sched.step() is not None:
        if sched.steps > cap:
            raise Discard("scheduler step cap")
    if qm.errors:
        # gates on unallocated qubits are stopped by the executor before reaching the memory
        raise Violation("memory", "memory|" + qm.errors[0].split(" ")[0], {"errors": qm.errors[:5], **sample})
    for k, v in list(faults.items()):
        if k == "planted-program-fault":
            bump(probes, "fault:planted", v)
    if n_apps > 1 and sched.switches > n_apps:
        bump(probes, "interleaved-apps")
    import hashlib

    pd = hashlib.blake2b("".join(progs_digest).encode(), digest_size=6).hexdigest()
    nontrivial = (n_apps > 1 and sched.switches > n_apps) or any(len(a["progs"]) > 1 for a in apps)
    return {
        "digest": trace.digest(), "fingerprint": sched.fingerprint() + pd, "nontrivial": bool(nontrivial),
        "events": sched.steps, "sim_ns": sched.now, "faults": faults, "probes": probes, "calm": calm,
        "sample": {"config": sample["config"], "programs": {str(a["id"]): a["progs"][:2] for a in apps},
                   "trace_head": [list(map(str, e)) for e in trace.events[:40]]},
    }


def cleanup() -> None:
    reset_globals()
