"""C09 -- SDK and controller agree on which virtual qubits exist.

Workload: host op sequences -- Qubit(), 1/2-qubit gates, measure (in place and
destructive), free(), reset(), create_keep / recv_keep (1-3 pairs: plain, sequential
with post routine, create_context / recv_context), flushes -- for qubit budgets 1..5,
generic and NV hardware configs, with and without the NV transpiler.  The generator
counts live qubits by the SDK's documented rules and never exceeds the budget (budget-1
on single-communication-qubit hardware).  The scheduler owns flush placement, the link
stub's answer times and ids, and outcomes.  Oracle: (i) no allocation fault on the
controller, (ii) after every completed flush the connection's active qubits are exactly
the controller's allocated virtual qubits.
"""
from __future__ import annotations

import hashlib
import traceback
from typing import Any, Dict, List, Optional, Tuple

from netqasm.qlink_compat import RequestType
from netqasm.sdk.build_types import GenericHardwareConfig, NVHardwareConfig
from netqasm.sdk.epr_socket import EPRSocket
from netqasm.sdk.qubit import Qubit
from netqasm.sdk.transpile import NVSubroutineTranspiler

from sim.core import Choices, Discard, Sched, Trace, Violation
from sim.props.c05 import _last_sub
from sim.rigs.controller import ControllerNode, LivenessWatch
from sim.stubs.backend import reset_globals
from sim.stubs.connection import SimConnection, SimNetworkInfo
from sim.stubs.link import FakeLink
from sim.stubs.qmem_trace import TraceQMem

PROP = "C09"
RUNS = {"quick": 5000, "thorough": 500000}
BUDGET_S = {"quick": 60, "thorough": 1500}
RULE = ("one run = (hardware config, transpiler on/off, qubit budget 1..5) + a sequence of 4-30 qubit-lifecycle operations "
        "(new, gates, measure in place/destructive into array or register, free, reset, create/recv keep plain | sequential+post "
        "routine | context | with a minimum-fidelity bound whose re-try loop the link drives by reporting slow generation, flush) that never holds more than the budget; non-trivial = a virtual id was handed out again after its "
        "qubit was measured/freed, or an entangled qubit was mapped, with at least two flushes; distinct = distinct "
        "(config, op sequence) digest")
COMPONENTS = {
    "real": ["netqasm.sdk.qubit.Qubit activation/deactivation", "memmgr (active qubits, lowest unused id)", "Builder: NV "
             "relocation of the qubit at id 0, EPR qubit id assignment, move-to-memory, post routine / context loops",
             "NVSubroutineTranspiler (when enabled)", "assembler, codec, controller, executor unit module"],
    "stub": ["one-sided fake link (ghost peer always ready)", "trace memory", "scheduler", "op-sequence generator"],
}
ASSUMPTIONS = [
    "live qubits counted by the documented rules: Qubit() +1, destructive measure -1, free() -1, keep(n) +n, sequential "
    "keep with a consuming post routine and context forms +0 (one slot needed while they run)",
    "min_fidelity_all_at_end variants (run-time dependent freeing) are not generated",
]
PROBES = ["measure-into-register", "keep-min-fidelity", "keep-min-fidelity-retried", "keep-min-fidelity-never-reached", "id-reused-after-measure", "id-reused-after-free", "epr-qubit-mapped", "nv-config", "nv-transpiler", "generic",
          "keep-plain", "keep-sequential-post", "keep-context", "create-role", "recv-role", "budget-1", "budget-5",
          "nv-relocation-of-id0"]

GHOST = 7


def gen_ops(ch: Choices, cap: int, budget: int, avoid: set, calm: bool, nv: bool = False) -> List[tuple]:
    n = 4 + ch.draw(6 if calm else 27, "nops")
    ops: List[tuple] = []
    live: List[str] = []
    nq = 0
    regmeas = 0      # register measurements since the last flush (a subroutine has 16 M registers)
    if nv and not calm and cap >= 2 and ch.flag(1, 3, "nvmulti"):
        # single-communication-qubit hardware: a multi-pair keep while nothing else is alive (every pair but the last is
        # moved from ID 0 to a memory qubit), on either role
        m = min(2 + ch.draw(2, "npairs"), cap)
        names = []
        for _i in range(m):
            names.append(f"q{nq}")
            nq += 1
        live.extend(names)
        ops.append(("keep_plain", "create" if ch.flag(1, 3, "role") else "recv", names))
    for _ in range(n):
        kinds = []
        w = []

        def add(k, wt):
            if k not in avoid:
                kinds.append(k)
                w.append(wt)

        if len(live) < cap:
            add("qubit", 6)
        if live:
            add("gate", 3)
            add("measure", 5)
            add("measure_inplace", 2)
            add("free", 3)
            add("reset", 1)
        if len(live) >= 2:
            add("two", 2)
        room = cap - len(live)
        if room >= 1 and not calm:
            add("keep_plain", 3)
            add("keep_seq_post", 2)
            add("keep_context", 2)
            add("keep_minfid", 2)
        add("flush", 4)
        k = kinds[ch.weighted(w, "op")]
        if k == "qubit":
            q = f"q{nq}"
            nq += 1
            live.append(q)
            ops.append(("qubit", q))
        elif k == "gate":
            ops.append(("gate", ch.pick(["X", "H", "Z", "T", "K", "S", "Y"]), live[ch.draw(len(live), "q")]))
        elif k == "two":
            i = ch.draw(len(live), "q1")
            j = ch.draw(len(live) - 1, "q2")
            j = j if j < i else j + 1
            ops.append(("two", ch.pick(["cnot", "cphase"]), live[i], live[j]))
        elif k in ("measure", "free"):
            q = live.pop(ch.draw(len(live), "q"))
            if k == "measure" and regmeas < 10 and ch.flag(1, 3, "regmeas"):
                k = "measure_reg"     # outcome kept in a register instead of an array
                regmeas += 1
            ops.append((k, q))
        elif k == "measure_inplace":
            ops.append(("measure_inplace", live[ch.draw(len(live), "q")]))
        elif k == "reset":
            ops.append(("reset", live[ch.draw(len(live), "q")]))
        elif k == "keep_plain":
            m = 1 + ch.draw(min(3, room), "npairs")
            if nv and live and "nv-keep-multi-with-live" in avoid:
                m = 1
            names = []
            for _i in range(m):
                names.append(f"q{nq}")
                nq += 1
            live.extend(names)
            ops.append(("keep_plain", "create" if ch.flag(1, 2, "role") else "recv", names))
        elif k == "keep_minfid":
            # keep with a minimum-fidelity constraint: the SDK wraps the request in a retry loop that frees the pairs of
            # a too-slow attempt and asks again; `slow` says which attempts the link reports as too slow
            m = 1 + ch.draw(min(2, room), "npairs")
            if nv and live and "nv-keep-multi-with-live" in avoid:
                m = 1
            names = []
            for _i in range(m):
                names.append(f"q{nq}")
                nq += 1
            live.extend(names)
            tries = 1 + ch.draw(3, "tries")
            slow = [ch.flag(1, 2, "slow") for _ in range(tries)]
            if "min-fidelity-never-reached" in avoid:
                slow[-1] = False
            role_mf = "create" if ch.flag(1, 2, "role") else "recv"
            # a third of the receive-side ones are remote-state-preparation receives (same re-try wrapper, other builder path)
            ops.append(("keep_minfid", role_mf, names, 50 + ch.draw(51, "fid"), tries, slow,
                        # (not with two pairs on NV: recv_rsp(number>=2) never completes there -- C10's recorded finding)
                        role_mf == "recv" and ch.flag(1, 3, "rsp") and not (nv and m > 1)))
        elif k == "keep_seq_post":
            m = 1 + ch.draw(3, "npairs")
            ops.append(("keep_seq_post", "create" if ch.flag(1, 2, "role") else "recv", m))
        elif k == "keep_context":
            m = 1 + ch.draw(3, "npairs")
            if "context-multi" in avoid:
                m = 1
            ops.append(("keep_context", "create" if ch.flag(1, 2, "role") else "recv", m))
        else:
            ops.append(("flush",))
            regmeas = 0
    for q in live:
        ops.append(("measure", q))
    ops.append(("flush",))
    return ops


def run(ch: Choices, opts: Dict[str, Any]) -> Dict[str, Any]:
    reset_globals()
    SimNetworkInfo.reset()
    avoid = set(opts.get("avoid", ()))
    trace = Trace()
    calm = ch.flag(1, 10, "calm")
    hw = "generic" if calm else ch.pick(["generic", "nv", "nv"])
    if "nv" in avoid:
        hw = "generic"
    transp = (hw == "nv") and ch.flag(1, 2, "transpiler")
    budget = 1 + ch.draw(5, "budget")
    cap = budget if hw == "generic" else budget - 1
    sched = Sched(ch, trace, mode="mix" if not calm else "time", max_cost=0 if calm else 40)
    qm = TraceQMem(lambda q: ch.draw(2, "outcome"))
    link = FakeLink(ch, sched, trace, legacy=False, max_gen_delay=0 if calm else 200, max_deliver_delay=0 if calm else 200)
    link.eager = (not calm) and ch.flag(1, 5, "eager-link")   # the first pair of a create may be answered from inside put()
    node = ControllerNode("n0", 0, qm, lambda: sched.now, flavour="nv" if transp else "vanilla", link=link)
    ops = gen_ops(ch, max(cap, 0), budget, avoid, calm, nv=(hw == "nv"))
    if hw == "nv" and ops and ops[0][0] == "keep_plain" and len(ops[0][2]) >= 2 and ch.flag(1, 2, "slowlink"):
        # a slow link: the pairs of the opening multi-pair keep arrive one by one, each after the previous one was handled
        link.max_gen_delay = 5000
    faults: Dict[str, int] = {}
    probes: Dict[str, int] = {}

    def bump(d, k, n=1):
        d[k] = d.get(k, 0) + n

    bump(probes, "nv-config" if hw == "nv" else "generic")
    if transp:
        bump(probes, "nv-transpiler")
    if budget in (1, 5):
        bump(probes, f"budget-{budget}")
    sample = {"hardware": hw, "transpiler": transp, "budget": budget, "ops": ops}
    state = {"done": False, "flushes": 0, "reuse": False, "epr": False, "kinds": set()}

    def eprs() -> str:
        return "epr=" + ",".join(sorted(state["kinds"]))

    SimNetworkInfo.node_ids["g7"] = GHOST
    SimNetworkInfo.app_nodes["ghost"] = "g7"

    create_plans: List[Optional[List[int]]] = []   # per create-role request, in issue order: the durations to report

    def goodness(job, k):
        if job.get("request") is None:
            pl = job.get("tag")
        else:
            if "plan" not in job:
                job["plan"] = create_plans.pop(0) if create_plans else None
            pl = job["plan"]
        return None if pl is None else pl[k]
    link.goodness_override = goodness

    def host_task():
        sock = EPRSocket("ghost", epr_socket_id=0, remote_epr_socket_id=0)
        hwc = NVHardwareConfig(budget) if hw == "nv" else GenericHardwareConfig(budget)
        conn = SimConnection("app", node, max_qubits=budget, hardware_config=hwc, epr_sockets=[sock],
                             compiler=NVSubroutineTranspiler if transp else None)
        qs: Dict[str, Qubit] = {}
        freed_ids: set = set()
        for i, op in enumerate(ops):
            k = op[0]
            ids_before = {nm: q.qubit_id for nm, q in qs.items() if q.active}
            try:
                if k == "qubit":
                    q = Qubit(conn)
                    qs[op[1]] = q
                    if q.qubit_id in freed_ids:
                        state["reuse"] = True
                        bump(probes, "id-reused-after-" + ("free" if ("free", q.qubit_id) in state.get("how", set()) else "measure"))
                elif k == "gate":
                    getattr(qs[op[2]], op[1])()
                elif k == "two":
                    a, b = qs[op[2]], qs[op[3]]
                    if transp and "transpiler-cc-gate" in avoid and a.qubit_id != 0 and b.qubit_id != 0 \
                            and not any(q.qubit_id == 0 for q in conn.active_qubits if isinstance(q.qubit_id, int)):
                        pass  # recorded finding: carbon-carbon gate while the electron (id 0) is unallocated
                    else:
                        getattr(a, op[1])(b)
                elif k == "measure":
                    freed_ids.add(qs[op[1]].qubit_id)
                    state.setdefault("how", set()).add(("measure", qs[op[1]].qubit_id))
                    qs[op[1]].measure()
                elif k == "measure_reg":
                    freed_ids.add(qs[op[1]].qubit_id)
                    state.setdefault("how", set()).add(("measure", qs[op[1]].qubit_id))
                    qs[op[1]].measure(store_array=False)
                    bump(probes, "measure-into-register")
                elif k == "measure_inplace":
                    qs[op[1]].measure(inplace=True)
                elif k == "free":
                    freed_ids.add(qs[op[1]].qubit_id)
                    state.setdefault("how", set()).add(("free", qs[op[1]].qubit_id))
                    qs[op[1]].free()
                elif k == "reset":
                    qs[op[1]].reset()
                elif k == "keep_plain":
                    state["kinds"].add(k)
                    role, names = op[1], op[2]
                    got = sock.create_keep(number=len(names)) if role == "create" else sock.recv_keep(number=len(names))
                    if role == "create":
                        create_plans.append(None)
                    for nm, q in zip(names, got):
                        qs[nm] = q
                    if role == "recv":
                        link.submit(creator=GHOST, receiver=0, purpose_c=0, purpose_r=0, tp=RequestType.K, number=len(names))
                    bump(probes, "keep-plain")
                    bump(probes, role + "-role")
                    state["epr"] = True
                elif k == "keep_minfid":
                    state["kinds"].add(k)
                    role, names, fid, tries, slow = op[1:6]
                    rsp = len(op) > 6 and op[6]
                    maxt = 100_000 - fid * 900       # the documented conversion of the fidelity bound into a duration
                    attempts = (slow.index(False) + 1) if False in slow else tries
                    plans = []
                    for a in range(attempts):
                        last = maxt + 1 + ch.draw(3, "over") if slow[a] else max(0, maxt - ch.draw(3, "under"))
                        plans.append([ch.draw(2 * maxt, "dur") for _ in names[:-1]] + [last])
                    if role == "create":
                        got = sock.create_keep(number=len(names), min_fidelity_all_at_end=fid, max_tries=tries)
                        create_plans.extend(plans)
                    else:
                        if rsp:
                            got = sock.recv_rsp(number=len(names), min_fidelity_all_at_end=fid, max_tries=tries)
                            bump(probes, "rsp-min-fidelity")
                        else:
                            got = sock.recv_keep(number=len(names), min_fidelity_all_at_end=fid, max_tries=tries)
                        for pl in plans:
                            link.submit(creator=GHOST, receiver=0, purpose_c=0, purpose_r=0,
                                        tp=RequestType.R if rsp else RequestType.K, number=len(names), tag=pl)
                    for nm, q in zip(names, got):
                        qs[nm] = q
                    bump(probes, "keep-min-fidelity")
                    if attempts > 1:
                        bump(probes, "keep-min-fidelity-retried")
                        bump(faults, "link-reports-slow-generation", sum(1 for a in range(attempts) if slow[a]))
                    if False not in slow:
                        bump(probes, "keep-min-fidelity-never-reached")
                        state["kinds"].add("minfid_exhausted")
                    bump(probes, role + "-role")
                    state["epr"] = True
                elif k == "keep_seq_post":
                    state["kinds"].add(k)
                    role, m = op[1], op[2]
                    outcomes = conn.new_array(m)

                    def post(c, q, pair):
                        q.H()
                        q.measure(future=outcomes.get_future_index(pair))

                    if role == "create":
                        sock.create_keep(number=m, post_routine=post, sequential=True)
                        create_plans.append(None)
                    else:
                        sock.recv_keep(number=m, post_routine=post, sequential=True)
                        link.submit(creator=GHOST, receiver=0, purpose_c=0, purpose_r=0, tp=RequestType.K, number=m)
                    bump(probes, "keep-sequential-post")
                    bump(probes, role + "-role")
                    state["epr"] = True
                elif k == "keep_context":
                    state["kinds"].add(k)
                    role, m = op[1], op[2]
                    outcomes = conn.new_array(m)
                    ctx = sock.create_context(number=m, sequential=True) if role == "create" else \
                        sock.recv_context(number=m, sequential=True)
                    with ctx as (q, pair):
                        q.H()
                        q.measure(future=outcomes.get_future_index(pair))
                    if role == "create":
                        create_plans.append(None)
                    if role == "recv":
                        link.submit(creator=GHOST, receiver=0, purpose_c=0, purpose_r=0, tp=RequestType.K, number=m)
                    bump(probes, "keep-context")
                    bump(probes, role + "-role")
                    state["epr"] = True
                elif k == "flush":
                    conn.flush()
            except Violation:
                raise
            except Exception as e:  # noqa: BLE001 -- the SDK refused a program that stays within the budget
                while e.__context__ is not None and isinstance(e.__context__, Exception):
                    e = e.__context__      # the first failure, not the one raised while a context manager unwound
                fr = traceback.extract_tb(e.__traceback__)[-1]
                raise Violation("sdk", f"sdk-exception|{type(e).__name__}|{fr.name}|{k}|{hw}|{eprs()}",
                                {"op_index": i, "op": op, "error": str(e)[:300], **sample})
            trace.add("op", i, k)
            if any(q.active and ids_before.get(nm) is not None and q.qubit_id != ids_before[nm] for nm, q in qs.items()):
                bump(probes, "nv-relocation-of-id0")
            if k == "flush":
                g = conn.drain()
                while True:
                    try:
                        y = next(g)
                    except StopIteration:
                        break
                    except Violation:
                        raise
                    except Exception as e:  # noqa: BLE001
                        msg = str(e)
                        cls = "other"
                        for key in ("not allocated", "already allocated", "outside the unit module", "not within the allocated"):
                            if key in msg:
                                cls = "allocation:" + key.replace(" ", "-")
                        if cls == "allocation:not-allocated" and transp and "address 0 was not allocated" in msg:
                            cls = "allocation:not-allocated-electron"
                        raise Violation("controller", f"controller-fault|{cls}|{hw}{'+transpiler' if transp else ''}|{eprs()}",
                                        {"op_index": i, "error": msg[:300], "subroutine": _last_sub(conn), **sample})
                    yield y
                state["flushes"] += 1
                sdk_ids = sorted(q.qubit_id for q in conn.active_qubits if isinstance(q.qubit_id, int))
                odd = [type(q).__name__ for q in conn.active_qubits if not isinstance(q.qubit_id, int)]
                ctl_ids = sorted(node.allocated(conn.app_id))
                if sdk_ids != ctl_ids or odd:
                    kind = "sdk-keeps-more" if set(ctl_ids) < set(sdk_ids) or odd else \
                        ("controller-keeps-more" if set(sdk_ids) < set(ctl_ids) else "different")
                    raise Violation("agreement", f"active-qubits-disagree|{kind}|{hw}|{eprs()}",
                                    {"sdk_active": sdk_ids, "non_int_handles": odd, "controller_allocated": ctl_ids,
                                     "after_op": i, **sample})
            yield None
        conn.close()
        for _ in conn.drain():
            pass
        state["done"] = True

    def on_error(task, e):
        # a fault while the controller maps a delivered pair (link delivery / retry timer)
        msg = str(e)
        cls = "other"
        for key in ("not allocated", "already allocated", "outside the unit module", "not within the allocated"):
            if key in msg:
                cls = "allocation:" + key.replace(" ", "-")
        raise Violation("controller", f"controller-fault-on-delivery|{cls}|{hw}{'+transpiler' if transp else ''}|{eprs()}",
                        {"task": task.name, "error": msg[:300], **sample})

    sched.on_error = on_error

    def info() -> Dict[str, Any]:
        if state["epr"]:
            bump(probes, "epr-qubit-mapped")
        h = hashlib.blake2b(repr((hw, transp, budget, ops)).encode(), digest_size=10).hexdigest()
        nontrivial = (state["reuse"] or state["epr"]) and state["flushes"] >= 2
        for k2, v in link.counters.items():
            if not k2.startswith("bell:"):
                bump(faults, k2, v)
        if node.env.retry_count:
            bump(faults, "retry-timer-fired", node.env.retry_count)
        return {
            "digest": trace.digest() + h[:6], "fingerprint": h, "nontrivial": bool(nontrivial), "events": sched.steps,
            "sim_ns": sched.now, "faults": faults, "probes": probes, "calm": calm,
            "sample": {"hardware": hw, "transpiler": transp, "budget": budget, "ops": ops[:25]},
        }

    sched.spawn("host", host_task(), party="host")
    sched.spawn("retry", node.retry_task(lambda: state["done"], ch, max_delay=100), party="ctrl-retry")
    watch = LivenessWatch(sched, [node], link, window=6000, hard=300000)
    try:
        while not state["done"]:
            if sched.step() is None:
                raise Violation("liveness", f"liveness|deadlock|{hw}|{eprs()}", {**sample, "pending": len(node.ex._pending_epr_responses)})
            stuck = watch.verdict()
            if stuck:
                raise Violation("liveness", f"liveness|{stuck}|{hw}|{eprs()}", {**sample, "pending": len(node.ex._pending_epr_responses)})
        link.stop()
        if qm.errors:
            raise Violation("controller", f"memory|{qm.errors[0].split(' ')[0]}|{hw}|{eprs()}", {"errors": qm.errors[:3], **sample})
        if transp:
            # NV flavour: a controlled rotation is driven by the electron (virtual qubit 0) and acts on a carbon -- an
            # instruction the other way round addresses the hardware in a way it does not have (this is C08's monitor, run
            # here as well because only programs with entanglement make the SDK emit `mov` between registers the transpiler
            # cannot follow)
            bad = [(a, b) for (a, b) in node.env.crot_virtual if a != 0 or b == 0]
            if bad:
                raise Violation("controller", f"nv-controlled-rotation-not-driven-by-the-electron|{eprs()}", {"control,target": bad[:4], **sample})
    except Violation as v:
        v.info = info()  # type: ignore[attr-defined]
        raise
    return info()


def cleanup() -> None:
    reset_globals()
    SimNetworkInfo.reset()
