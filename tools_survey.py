#!/venv/bin/python
"""survey: run N seeds of a property in-process, print the smallest example per violation signature"""
import os, sys, json
os.environ.setdefault("PYTHONHASHSEED","0")
sys.path.insert(0,'/verif'); sys.path.insert(0, os.environ.get("NETQASM_SRC","/repo"))
import logging; logging.getLogger("NetQASM").setLevel(logging.ERROR)
import importlib
from sim.core import run_seed
from sim import runner
prop=sys.argv[1]; n=int(sys.argv[2]); avoid=set(sys.argv[3].split(',')) if len(sys.argv)>3 and sys.argv[3] else set()
mod=importlib.import_module(runner.PROPS[prop])
best={}
cnt={}
for i in range(n):
    r=runner.run_one(mod,prop,run_seed(0,prop,'quick',i),None,{"tier":"quick","avoid":avoid,"index":i})
    if r['status']=='violation':
        s=r['signature']; cnt[s]=cnt.get(s,0)+1
        size=len(json.dumps(runner_jsonable(r['detail'])) if False else str(r['detail']))
        if s not in best or size<best[s][0]: best[s]=(size,i,r['detail'])
    elif r['status']=='harness':
        print("HARNESS", i, r['tb']); break
for s,(size,i,d) in sorted(best.items()):
    print("=====",s,"count",cnt[s],"run",i)
    if isinstance(d,dict):
        for k,v in d.items():
            if k in ('subroutine',): continue
            print("  ",k,":",str(v)[:900])
    else: print(str(d)[:1500])
