#!/venv/bin/python
"""Regenerates MANIFEST.json from the table below (kept in one place so that it stays valid)."""
import json, os, sys
HERE = os.path.dirname(os.path.abspath(__file__))
sys.path.insert(0, HERE)

NA = {
 "C01": "pure function of one value (decode(encode(x)) == x and two static tables): no schedule, clock, peer or fault for a simulator to vary; the codec runs as real code on every simulated message but no claim is made (DESIGN §5 C01)",
 "C02": "byte layout of one encoded value against a fixed table: pure, no run-time party; deterministic simulation has nothing to decide (DESIGN §5 C02)",
 "C03": "parse/assemble is a pure source->instruction-list function; deciding it needs a second interpreter of the source, not a schedule or a fault (DESIGN §5 C03)",
 "C07": "a finite family of matrix identities per gate, each a pure function evaluated once; no run-time party, nothing to schedule (C08/C20 execute the decompositions, but this property as stated is not claimed) (DESIGN §5 C07)",
 "C15": "deserialize(bytes(m)) == m for one message value: pure; no peer, schedule or fault in its truth (DESIGN §5 C15)",
 "C16": "a range check at encode time on one value: pure function of its input (DESIGN §5 C16)",
 "C17": "parse(str(instr)) == instr: pure function of one value (DESIGN §5 C17)",
 "C19": "get_angle_spec_from_float is a pure float -> list function; no run-time party (DESIGN §5 C19)",
}

CLAIMED = {
 "C04": dict(
   text="Seeded exploration: random core-NetQASM programs of 1-3 applications executed on the real QNodeController/Executor through real serialised messages under a seeded instruction-level interleaving, compared in lock-step (every instruction) with an independent reference interpreter, including fault line and no-effect-on-fault. Evidence, not proof: programs and schedules are sampled up to the stated bounds.",
   note="Trusted: sim/models/netqasm_ref.py (reference semantics), SimExecutor hook overrides, the scheduler. Domain: defined registers, non-negative indices, 32-bit results, arrays <= 64 entries; <=200 executed instructions per subroutine.",
   technique="deterministic simulation: seeded instruction-level interleaving + lock-step reference model",
   ref="§5 C04"),
 "C12": dict(
   text="Seeded exploration of schedules: raw NetQASM subroutines with up to three outstanding entanglement requests (create/receive, keep/measure, 1-2 sockets, 1-2 remote nodes, 1-2 applications) -- and, in a quarter of the runs, SDK-emitted requests on two real nodes -- run on the real controller(s) while the seeded scheduler orders instruction steps, link-layer deliveries (early ones included) and retry timers; a reference matcher over the recorded issue/delivery history decides slice placement, qubit mapping, exactly-once consumption and queue retirement; step monitors decide wait instructions and non-overwriting of allocated qubits; bounded liveness after the last delivery. Injected faults: responses before their request, cross-key reordering, deferred (busy) virtual qubits, a create request refused by the network stack (the subroutine aborts, nothing of it may stay behind), purpose ids that differ from socket ids, requests awaited only in the application's next subroutine.",
   note="Trusted: fake link layer (per-key FIFO, cross-key races), retry timer replacing the base class's unbounded recursion, the reference matcher. Requests sharing a key share a type; no message loss between link and controller.",
   technique="deterministic simulation: seeded interleaving of instruction steps, link deliveries and retry timers + history matcher",
   ref="§5 C12"),
 "C13": dict(
   text="Seeded exploration of histories: register / subroutine / keep-delivery / stop / re-register events over 1-3 application ids on one real controller, interleaved per instruction; after every event the global allocation invariants (injective virtual->physical map, used-set == mapped set), isolation of the non-acting applications (bit-identical snapshots), and the lifecycle rules (stop releases everything, re-registration of the id succeeds from an empty state) are checked.",
   note="Trusted: trace quantum memory, fake link with ghost creators, scheduler, invariant code. Applications are stopped only between their own subroutines; entanglement blocks are well-formed, random tails may fault.",
   technique="deterministic simulation: seeded interleaving of application lifecycles with faulting programs + invariants after every event",
   ref="§5 C13"),
 "C05": dict(
   text="Seeded exploration: generated host programs (if x6 conditions x context/callback, loop, loop_body, foreach, enumerate, loop_until, add +-modulus, arrays with initial values, measurement into futures / array slots / registers; nesting <=3; <=12 top-level statements) run through the real SDK -> assembler -> codec -> controller pipeline with a scheduler-owned measurement-outcome script and flush placement, and through an independent direct evaluator of the same AST; at every flush the controller's gate trace, arrays, registers and every host-visible Future/RegFuture/Array are compared.",
   note="Trusted: direct evaluator + generator sim/models/host_ref.py (loop_until clean-up routines, count-down and caller-named-register loops, future-indexed elements, a lazy host that reads some register futures only after a later flush; programs read only definitely-defined values; body-local qubits consumed in the body; register futures used as operands only inside their flush segment), trace memory, SimConnection. Vanilla flavour, generic hardware, Z-basis measurement.",
   technique="deterministic simulation: scheduler-owned outcomes and flush placement + differential against a direct evaluator",
   ref="§5 C05"),
 "C14": dict(
   text="Seeded exploration of long histories: one connection, 40-400 completed SDK operations of every kind (nesting <=3) with a flush after every k-th; every operation must compile; a monitor on the builder's register pool requires the active set to be empty between operations and a leaked register is confirmed by repeating the operation until compilation actually fails (reported with the allocating call site); the C05 differential oracle runs at every flush to catch temporaries overwriting live registers.",
   note="Trusted: pool monitor (instance-level wrapper recording call sites), generator/evaluator of C05. Programs hold no user-level register handles; C05's recorded finding shapes are excluded.",
   technique="deterministic simulation: seeded long operation histories with drawn flush period + register-pool monitor with confirm-by-repetition",
   ref="§5 C14"),
 "C09": dict(
   text="Seeded exploration: qubit-lifecycle op sequences (new, gates, in-place/destructive measure, free, reset, into array or register, create/recv keep plain | sequential+post routine | context | with a minimum-fidelity constraint whose re-try loop is driven by the link reporting slow generation, flushes) for budgets 1..5 on generic and NV hardware configs with and without the NV transpiler, run through the real SDK and controller with a one-sided fake link; no allocation fault may occur on the controller and after every completed flush the connection's active qubits must be exactly the controller's allocated virtual qubits.",
   note="Trusted: live-qubit accounting of the generator (documented rules), one-sided link stub, trace memory. Five recorded findings are masked in half of the runs (known_findings.json).",
   technique="deterministic simulation: scheduler-owned flush placement, link answer times/ids + agreement oracle after every flush",
   ref="§5 C09"),
 "C06": dict(
   text="Seeded twin simulation: the same generated host program (1-6 segments of straight-line and looped quantum code with template rotation numerators) is run as system A (compile -> instantiate(values) -> commit_subroutine for the drawn segments, ordinary flushes for the others) and as system B (concrete values, ordinary flushes only) under one choice record; after every segment the controller gate traces, arrays, shared memory, every host-visible handle and the connection bookkeeping (arrays / registers pending return, used M registers) must be equal; a compiled subroutine is also instantiated several times on shallow copies (each copy takes its own values, the original keeps its templates).",
   note="Trusted: system B as the reference (judged itself by C05), trace memories sharing one outcome script, generator. Template operands only in rotation numerators. NV runs use straight-line code; runs where both systems fault identically are discarded (C09's business).",
   technique="deterministic simulation: twin systems under one seeded choice record (placement of compile/commit vs flush, values, outcomes)",
   ref="§5 C06"),
 "C10": dict(
   text="Seeded exploration on two simulated nodes (real SDK hosts + real controllers) over a state-vector universe: for every API variant (recv_keep, with_info, post routine/sequential, recv_rsp, recv_measure -- also with the receiver stating the bases itself -- against the matching create call), pair counts 1-4, generic/NV hardware +- transpiler, other live qubits, expectation on/off, the scheduler draws the Bell state of every pair and the delivery order; oracle: joint state of (receiver qubit i, creator partner i) is Phi+ (or exactly the delivered state with the expectation off), other qubits untouched, post-routine outcomes correlate with the partner's collapsed state, and for measure-directly the exact (Born-weighted) distribution of post-processed outcomes equals that of Phi+ in the requested basis.",
   note="Trusted: state-vector universe (gate semantics written from definitions), fake link with its own Bell-state numbering (published numbering), fidelity threshold 1-1e-9. Three recorded findings are masked in half of the runs.",
   technique="deterministic simulation: two-node network with scheduler-owned Bell states, outcomes and delivery order + state-vector oracle",
   ref="§5 C10"),
 "C11": dict(
   text="Seeded exploration: 1-3 calls through every public EPRSocket entry point with drawn arguments (type, pair count, time limit/unit, rotation triples, named bases, every RandomBasis member, sockets 0-3 to three remote nodes, both roles) on a real host + controller with ghost peers; every response field is drawn independently and pairwise distinct. Request oracle: the LinkLayerCreate reaching the recording network stack equals, field by field and type by type, what the API arguments imply, and request_to_qlink_1_0 accepts it. Response oracle: every result handle (Qubit.entanglement_info, EprKeepResult, EprMeasureResult, mapped physical qubit, remote node name) reads the field of the i-th response delivered for that request.",
   note="Trusted: expected_request() table written from the EPRSocket documentation, recording stack (purpose id = a per-run bijection of the socket id), fake link; one run in five starts with a create request the stack refuses. Generic hardware config.",
   technique="deterministic simulation: scheduler-owned response fields and delivery times + field-by-field boundary oracle",
   ref="§5 C11"),
 "C20": dict(
   text="Seeded exploration on a single simulated node with a state-vector memory: each toolbox call (toffoli_gate, t_inverse, set_qubit_state, parity_meas over every Pauli string of length 1-3 with optional leading '-', and sequences of 2-3 parity measurements flushed separately whose handles are read only at the end) runs through the real SDK -> bytes -> controller pipeline on injected computational-basis and random entangled input states, with scheduler-owned flush placement and every measurement branch forced in turn; final states are compared with the ideal operator (fidelity), parity_meas additionally on the returned value, the exact branch probability and the post-measurement state.",
   note="Trusted: state-vector universe (definitions of the vanilla gates), operator table of the oracle. Vanilla flavour only (NV decompositions belong to C08). set_qubit_state threshold 1-1e-6, others 1-1e-9.",
   technique="deterministic simulation: forced measurement branches and flush placement over a state-vector backend + ideal-operator oracle",
   ref="§5 C20"),
 "C08": dict(
   text="Seeded twin simulation: a generated vanilla subroutine of the kind the SDK emits (gates preceded by the set of their qubit registers, inside LOOP / IF_EXIT shapes, with measurements feeding branches and arrays optionally an exit label just past the end, labels directly on gates, debug annotations, the package-wide hardware setting) -- or, in a third of the runs, the subroutines the real SDK emits for a generated host program -- is executed as is on a vanilla executor and, after NVSubroutineTranspiler, on an NV executor -- same injected input state, one shared stream of collapse draws; at the end classical memory must be identical, the allocated qubits' state equal up to global phase, and every crot_* must have the electron as control.",
   note="Trusted: state-vector universe (vanilla and NV instruction semantics written from definitions; validated against each other on CNOT/CPHASE/MOV), generator. Virtual qubit 0 stays allocated; Q registers and C15 are excluded from the classical comparison; two recorded findings are masked in half of the runs.",
   technique="deterministic simulation: vanilla/NV twin executors under one seeded stream of collapse draws + state-vector comparison",
   ref="§5 C08"),
 "C18": dict(
   text="Seeded exploration of thread schedules: 2-3 endpoint programs (socket pairs on ids 0/1 or a 3-party broadcast channel; <=4 operations each: send / blocking-with-timeout and non-blocking receive, structured and silent variants, callback delivery, disconnect by dropping the socket at a drawn point, re-connection, non-blocking broadcast polls, an impatient first connect attempt that times out while the peer is held back) run in real threads that move only while holding the scheduler's baton; every source line of socket_hub.py / thread_socket/socket.py / broadcast_channel.py is a pre-emption point decided by the seeded choice stream; sleep, timer and Lock are virtual. Oracle over the recorded invoke/return history: per channel the received sequence is a duplicate-free prefix of what was sent, received + still-queued == sent (exactly once), non-blocking receives report emptiness only when nothing was certainly there, sends to a departed peer fail with ConnectionError, constructors rendezvous without timeout or deadlock.",
   note="Trusted: baton scheduler (one thread runs at a time; line-level pre-emption), virtual time (a sleeper may be resumed at any time, which jumps the clock), endpoint programs deadlock-free by construction. Socket keys are not reused within a run.",
   technique="deterministic simulation: real threads under a seeded baton scheduler with line-level pre-emption, virtual sleep/timer/Lock + history oracle",
   ref="§5 C18"),
}

PENDING = {p: 'check not built yet in this round (simulation target per DESIGN §5; will be claimed when its rig exists)' for p in ['C05','C06','C08','C09','C10','C11','C12','C13','C14','C18','C20']}
for p in CLAIMED: PENDING.pop(p, None)

def main():
    checks = []
    for pid, c in sorted(CLAIMED.items()):
        checks.append({
            "property_id": pid,
            "quick_cmd": f"./check {pid} --tier quick",
            "thorough_cmd": f"./check {pid} --tier thorough",
            "evidence_file": f"/verif/evidence/{pid}.json",
            "replay_cmd_template": f"./check {pid} --replay {{path}}",
            "engine": "netqasm-dst",
            "level_claimed": {"category": "exploration", "text": c["text"], "design_ref": c["ref"]},
            "level_note": c["note"],
            "technique": c["technique"],
        })
    na = [{"property_id": k, "reason": v} for k, v in sorted({**NA, **PENDING}.items())]
    m = {
        "version": 1,
        "setup_cmd": "./setup.sh",
        "hooks": {
            "guard": "NETQASM_VERIF_SIM",
            "enable": "no source hooks are needed: every seam is a documented subclass hook or a module-level name rebound from /verif; ./check sets NETQASM_VERIF_SIM=1 for its own process only (reserved name, read by nothing in /repo)",
            "baseline_off_cmd": "cd /repo && /venv/bin/python -m pytest -ra -q -p no:cacheprovider --timeout=900 --continue-on-collection-errors",
            "source_commits": [],
            "add_only": True,
        },
        "engines": [{
            "name": "netqasm-dst", "path": "/verif/sim",
            "serves_properties": sorted(CLAIMED),
            "kind_free_text": "deterministic simulation with fault injection: one seeded choice stream decides workload, swarm config, faults, delays and every scheduling decision; real netqasm code (SDK, assembler, codec, controller, executor, thread-socket hub) runs in-process behind subclass/monkeypatch seams; violations are minimised on the choice record and replayed exactly",
        }],
        "checks": checks,
        "not_applicable": na,
        "notes": "See DESIGN.md. Exit 0 = held on everything explored (KNOWN-FINDING lines list recorded defects from known_findings.json); exit 1 = VIOLATION with replay; exit 2 = harness error.",
    }
    with open(os.path.join(HERE, "MANIFEST.json"), "w") as f:
        json.dump(m, f, indent=1)
    print("claimed", sorted(CLAIMED), "n/a", sorted(NA), "pending", sorted(PENDING))

if __name__ == "__main__":
    main()
